SPECIFICATION Spec
CONSTANTS
  Role = "client"
  K = 2
INVARIANT TypeOK
PROPERTIES ClosedIsFinal BindingEntered BindingLeft BindNeedsIdle OnlyBindTrafficWhileBinding OpensOnFirstTraffic RefusedCallIsInvisible ReceiveErrorCloses IdsIncrease IdsNeverGoBack AcceptedIffInProgress SearchStays OthersCompleteOnFirst RequestsCloseClient OnlyOutstandingAnswered FinalRetires ReceiveQueuesNothing
