------------------------------ MODULE Lifecycle ------------------------------
(* The documented life cycle of one sansldap session (properties C08, C09, C10), as a   *)
(* deterministic, environment-driven transition system.  One event per step: an API     *)
(* call or the delivery of one protocol data unit.  `ev', `ok', `out', `eresp' record   *)
(* the event just taken and what the session visibly did with it, so that every edge    *)
(* of the dumped state graph is self-describing; vf/checks/tlalc.py runs the product of *)
(* this graph with the real LDAPClient / LDAPServer objects and demands that they agree *)
(* on every edge (and that every edge of the graph is exercised).                       *)
(*                                                                                      *)
(* Where the properties are silent (a response of the wrong kind for a search in        *)
(* progress; more than K operations) the event is simply not enabled here.              *)
EXTENDS Naturals, Integers, Sequences, FiniteSets

CONSTANTS Role,     \* "client" or "server"
          K         \* ids 0..K are candidates; a client issues at most K operations

VARIABLES st,       \* visible state: "BEFORE_OPEN", "BINDING", "OPENED", "CLOSED"
          prog,     \* prog[i+1]: what is in progress under message id i ("none", "bind", "search", "ext"; a server only tracks "req")
          nxt,      \* client: the id the next request will carry
          ev,       \* the event just taken: <<"call"|"recv", name, id>>
          ok,       \* TRUE iff the call / receive returned normally
          out,      \* kind of the one message appended to the outgoing stream by this event, or "none"
          eresp     \* kind of the message attached to the raised error (ProtocolError.response), or "none"

vars == <<st, prog, nxt, ev, ok, out, eresp>>

Ids        == 0..K
RespKinds  == {"BindResp-ok", "BindResp-sasl", "BindResp-bad", "Entry", "Ref", "Done", "ExtResp"}
ReqKinds   == {"BindReq", "SearchReq", "ExtReq"}
OtherKinds == {"Unbind", "Notice", "garbage", "DelReq", "IntermResp"}   \* the last two: well-formed PDUs of operations the library does not implement
ClientCalls == {"bind_simple", "bind_sasl", "search", "ext", "ext_tls", "unbind"}   \* ext_tls: an extended operation known by name (StartTLS)
ServerCalls == {"bind_response-ok", "bind_response-sasl", "bind_response-bad", "ext_response", "ext_response-tls", "notice", "entry", "ref", "done"}
BindCalls  == {"bind_simple", "bind_sasl", "bind_response-ok", "bind_response-sasl", "bind_response-bad"}
FinalBind  == {"bind_response-ok", "bind_response-bad", "BindResp-ok", "BindResp-bad"}
Idle       == [i \in 1..(K + 1) |-> "none"]
P(i)       == prog[i + 1]
Busy       == \E i \in Ids : P(i) # "none"

OutOfCall(name) ==
    CASE name \in {"bind_simple", "bind_sasl"} -> "BindReq"
      [] name = "search" -> "SearchReq"
      [] name \in {"ext", "ext_tls"} -> "ExtReq"
      [] name = "unbind" -> "Unbind"
      [] name \in {"bind_response-ok", "bind_response-sasl", "bind_response-bad"} -> "BindResp"
      [] name \in {"ext_response", "ext_response-tls"} -> "ExtResp"
      [] name = "notice" -> "Notice"
      [] name = "entry" -> "Entry"
      [] name = "ref" -> "Ref"
      [] name = "done" -> "Done"

Init == /\ st = "BEFORE_OPEN" /\ prog = Idle /\ nxt = 1
        /\ ev = <<"init", "", -1>> /\ ok = TRUE /\ out = "none" /\ eresp = "none"

\* a refused event: nothing visible changes and nothing is emitted
Refused(e) == /\ ev' = e /\ ok' = FALSE /\ out' = "none" /\ eresp' = "none"
              /\ UNCHANGED <<st, prog, nxt>>

\* a delivery to a session that is already CLOSED: refused, nothing changes; the error still carries the message the
\* implementation attaches to every error that was not caused by the peer's own termination (not constrained by the
\* properties, which speak about the outgoing stream; kept so that the binding to the code is exact)
RefusedDelivery(e) == /\ ev' = e /\ ok' = FALSE /\ out' = "none" /\ eresp' = (IF Role = "client" THEN "Unbind" ELSE "Notice")
                      /\ UNCHANGED <<st, prog, nxt>>

\* an accepted event
Accepted(e, s, p, n, o) == /\ ev' = e /\ ok' = TRUE /\ out' = o /\ eresp' = "none"
                           /\ st' = s /\ prog' = p /\ nxt' = n

\* a delivery that terminates the session: receive raises, the session is CLOSED, nothing is queued
Closes(e, r) == /\ ev' = e /\ ok' = FALSE /\ out' = "none" /\ eresp' = r
                /\ st' = "CLOSED" /\ prog' = Idle /\ nxt' = nxt

------------------------------------------------------------------------------
ClientCall(name) ==
    LET e == <<"call", name, -1>> IN
    IF st = "CLOSED" THEN Refused(e)
    ELSE IF name = "unbind" THEN Accepted(e, "CLOSED", Idle, nxt, "Unbind")
    ELSE IF name \in BindCalls THEN
        IF Busy THEN Refused(e)
        ELSE /\ nxt <= K
             /\ Accepted(e, "BINDING", [prog EXCEPT ![nxt + 1] = "bind"], nxt + 1, "BindReq")
    ELSE
        IF st = "BINDING" THEN Refused(e)
        ELSE /\ nxt <= K
             /\ Accepted(e, "OPENED", [prog EXCEPT ![nxt + 1] = IF name = "search" THEN "search" ELSE "ext"], nxt + 1, OutOfCall(name))

ClientRecv(kind, i) ==
    LET e == <<"recv", kind, i>> IN
    IF st = "CLOSED" THEN RefusedDelivery(e)
    ELSE IF kind \in {"Unbind", "Notice"} THEN Closes(e, "none")
    ELSE IF kind \in ReqKinds \cup {"garbage", "DelReq"} THEN Closes(e, "Unbind")
    ELSE IF P(i) = "none" THEN Closes(e, "Unbind")
    ELSE IF kind = "IntermResp" THEN FALSE          \* for an operation in progress: not specified
    ELSE IF P(i) = "search" THEN
        /\ kind \in {"Entry", "Ref", "Done"}          \* anything else: the properties are silent
        /\ Accepted(e, st, IF kind = "Done" THEN [prog EXCEPT ![i + 1] = "none"] ELSE prog, nxt, "none")
    ELSE Accepted(e, IF kind \in FinalBind THEN "OPENED" ELSE st, [prog EXCEPT ![i + 1] = "none"], nxt, "none")

------------------------------------------------------------------------------
ServerCall(name, i) ==
    LET e == <<"call", name, i>> IN
    IF st = "CLOSED" THEN Refused(e)
    ELSE IF name = "unbind" THEN Accepted(e, "CLOSED", Idle, nxt, "Unbind")
    ELSE IF st = "BINDING" /\ name \notin BindCalls \cup {"notice"} THEN Refused(e)
    ELSE IF P(i) = "none" THEN Refused(e)
    ELSE Accepted(e,
                  CASE name \in FinalBind -> "OPENED" [] name = "notice" -> "CLOSED" [] OTHER -> st,
                  IF name = "notice" THEN Idle ELSE IF name \in {"entry", "ref"} THEN prog ELSE [prog EXCEPT ![i + 1] = "none"],
                  nxt, OutOfCall(name))

ServerRecv(kind, i) ==
    LET e == <<"recv", kind, i>> IN
    IF st = "CLOSED" THEN RefusedDelivery(e)
    ELSE IF kind = "Unbind" THEN Closes(e, "none")
    ELSE IF kind = "DelReq" THEN FALSE              \* a request the library does not implement: refused today, not specified
    ELSE IF kind \in RespKinds \cup {"Notice", "garbage", "IntermResp"} THEN Closes(e, "Notice")
    ELSE IF kind = "BindReq" THEN
        IF Busy THEN Closes(e, "Notice")
        ELSE Accepted(e, "BINDING", [prog EXCEPT ![i + 1] = "req"], nxt, "none")
    ELSE Accepted(e, IF st = "BEFORE_OPEN" THEN "OPENED" ELSE st, [prog EXCEPT ![i + 1] = "req"], nxt, "none")

------------------------------------------------------------------------------
Next ==
    \/ /\ Role = "client"
       /\ \/ \E name \in ClientCalls : ClientCall(name)
          \/ \E kind \in RespKinds \cup ReqKinds \cup OtherKinds, i \in Ids : ClientRecv(kind, i)
    \/ /\ Role = "server"
       /\ \/ \E name \in ServerCalls \cup {"unbind"}, i \in Ids : ServerCall(name, i)
          \/ \E kind \in RespKinds \cup ReqKinds \cup OtherKinds, i \in Ids : ServerRecv(kind, i)

Spec == Init /\ [][Next]_vars

------------------------------------------------------------------------------
(* The clauses of the properties, stated over single steps and checked by TLC on every *)
(* transition of the model.                                                             *)
IsCall       == ev'[1] = "call"
IsRecv       == ev'[1] = "recv"
IsBindReq    == \/ (Role = "client" /\ IsCall /\ ev'[2] \in {"bind_simple", "bind_sasl"})
                \/ (Role = "server" /\ IsRecv /\ ev'[2] = "BindReq")
IsFinalBind  == \/ (Role = "server" /\ IsCall /\ ev'[2] \in FinalBind)
                \/ (Role = "client" /\ IsRecv /\ ev'[2] \in FinalBind)
IsTerminator == \/ (IsCall /\ ev'[2] \in {"unbind", "notice"})
                \/ (IsRecv /\ ~ok')

TypeOK == /\ st \in {"BEFORE_OPEN", "BINDING", "OPENED", "CLOSED"}
          /\ prog \in [1..(K + 1) -> {"none", "bind", "search", "ext", "req"}]
          /\ nxt \in 1..(K + 1)
          /\ P(0) = "none" \/ Role = "server"          \* a client never has id 0 in progress
          /\ (st = "BEFORE_OPEN" => ~Busy)
          /\ (st = "CLOSED" => ~Busy)
          /\ (Role = "client" /\ st = "BINDING" => Cardinality({i \in Ids : P(i) # "none"}) <= 1)

\* C08: once CLOSED, always CLOSED; every later operation is rejected, produces no bytes, accepts no data
ClosedIsFinal == [][st = "CLOSED" => (st' = "CLOSED" /\ ~ok' /\ out' = "none" /\ prog' = prog /\ nxt' = nxt)]_vars
\* C08: BINDING is entered exactly when a bind request is sent or received
BindingEntered == [][((st # "BINDING" /\ st' = "BINDING") => (ok' /\ IsBindReq)) /\ ((ok' /\ IsBindReq) => st' = "BINDING")]_vars
\* C08: ... and left only on a bind response that is not "SASL bind in progress", or by termination
BindingLeft == [][(st = "BINDING" /\ st' # "BINDING") => ((ok' /\ IsFinalBind /\ st' = "OPENED") \/ (st' = "CLOSED" /\ IsTerminator))]_vars
\* C08: a bind cannot start while other operations are outstanding
BindNeedsIdle == [][(ok' /\ IsBindReq) => ~Busy]_vars
\* C08: while BINDING nothing but bind traffic or a termination can be sent
OnlyBindTrafficWhileBinding == [][(st = "BINDING" /\ IsCall /\ ok') => ev'[2] \in BindCalls \cup {"unbind", "notice"}]_vars
\* C08: the session opens on first traffic
OpensOnFirstTraffic == [][st = "BEFORE_OPEN" => ((ok' => st' \notin {"BEFORE_OPEN"}) /\ (~ok' => st' \in {"BEFORE_OPEN", "CLOSED"}))]_vars
\* C08 / C10: a refused call changes nothing and emits nothing
RefusedCallIsInvisible == [][(IsCall /\ ~ok') => (st' = st /\ prog' = prog /\ nxt' = nxt /\ out' = "none")]_vars
\* C08: a failing receive always closes; a successful one never does
ReceiveErrorCloses == [][IsRecv => (ok' <=> st' # "CLOSED")]_vars
\* C09: ids are positive, strictly increasing, never reused
IdsIncrease == [][(Role = "client" /\ IsCall /\ ok' /\ ev'[2] # "unbind") => (nxt' = nxt + 1 /\ nxt >= 1 /\ P(nxt) = "none" /\ prog'[nxt + 1] # "none")]_vars
IdsNeverGoBack == [][nxt' >= nxt]_vars
\* C09: a response is accepted iff its id belongs to an operation still in progress
AcceptedIffInProgress == [][(Role = "client" /\ IsRecv /\ ev'[2] \in RespKinds \cup {"IntermResp"} /\ st # "CLOSED") => (ok' <=> P(ev'[3]) # "none")]_vars
\* C09: a search stays in progress until its done message; every other operation completes on its first response
SearchStays == [][(Role = "client" /\ IsRecv /\ ok' /\ P(ev'[3]) = "search") => (prog'[ev'[3] + 1] = IF ev'[2] = "Done" THEN "none" ELSE "search")]_vars
OthersCompleteOnFirst == [][(Role = "client" /\ IsRecv /\ ok' /\ P(ev'[3]) \in {"bind", "ext"}) => prog'[ev'[3] + 1] = "none"]_vars
\* C09: request-type messages close the session
RequestsCloseClient == [][(Role = "client" /\ IsRecv /\ ev'[2] \in ReqKinds \cup {"Unbind", "DelReq"}) => (~ok' /\ st' = "CLOSED")]_vars
\* C10: a server emits a response only for a request that is currently outstanding
OnlyOutstandingAnswered == [][(Role = "server" /\ IsCall /\ ev'[2] # "unbind" /\ ok') => P(ev'[3]) # "none"]_vars
\* C10: a final response retires the request, an entry or reference does not
FinalRetires == [][(Role = "server" /\ IsCall /\ ev'[2] # "unbind" /\ ok') => (prog'[ev'[3] + 1] = IF ev'[2] \in {"entry", "ref"} THEN prog[ev'[3] + 1] ELSE "none")]_vars
\* nothing is queued by a receive
ReceiveQueuesNothing == [][IsRecv => out' = "none"]_vars
=============================================================================
