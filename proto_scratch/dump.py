import sys
sys.path.insert(0, "/repo/src")
from sansldap import *
from sansldap._messages import PackingOptions
opt = PackingOptions()
def tlv(b, ind=0):
    i = 0
    while i < len(b):
        t = b[i]; i += 1
        num = t & 31
        if num == 31:
            num = 0
            while True:
                c = b[i]; i += 1; num = (num << 7) | (c & 127)
                if not c & 128: break
        l = b[i]; i += 1
        if l & 128:
            n = l & 127; l = int.from_bytes(b[i:i+n], "big"); i += n
        body = b[i:i+l]; i += l
        cls = "UACP"[t >> 6]; pc = "c" if t & 32 else "p"
        if t & 32:
            print(" " * ind + f"{cls}{num}{pc} len={l}"); tlv(body, ind + 2)
        else:
            print(" " * ind + f"{cls}{num}{pc} len={l} {body.hex()}")
R = LDAPResult(LDAPResultCode.REFERRAL, "dn", "msg", ["u1"])
msgs = [BindRequest(1, [LDAPControl("1.2", True, b"v"), PagedResultControl(False, 5, b"ck")], 3, "n", SaslCredential("M", b"c")),
        BindRequest(1, [], 3, "n", SimpleCredential("p")),
        BindResponse(1, [], R, b"s"), UnbindRequest(1, []),
        SearchRequest(1, [], "b", SearchScope.ONE_LEVEL, DereferencingPolicy.ALWAYS, 7, 9, True,
                      FilterAnd([FilterOr([FilterNot(FilterEquality("a", b"v"))]), FilterSubstrings("a", b"i", [b"x", b"y"], b"f"), FilterGreaterOrEqual("a", b"1"), FilterLessOrEqual("a", b"2"), FilterPresent("p"), FilterApproxMatch("a", b"3"), FilterExtensibleMatch("r", "t", b"v", True)]), ["x", "y"]),
        SearchResultEntry(1, [], "o", [PartialAttribute("a", [b"1", b"2"])]), SearchResultDone(1, [], R), SearchResultReference(1, [], ["u"]),
        ExtendedRequest(1, [], "1.2", b"v"), ExtendedResponse(1, [], R, "1.3", b"w")]
for m in msgs:
    print("==", type(m).__name__); tlv(m.pack(opt))
