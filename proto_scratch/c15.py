import sys, itertools, collections, re, time
sys.path.insert(0, "/repo/src")
import sansldap._filter as f
A = list("()&|!=~<>:*\\ a1.;-\n\x00é")
assert len(A) == 21
KEY = r"[A-Za-z][A-Za-z0-9-]*"; NUM = r"(?:0|[1-9][0-9]*)"
OID = rf"(?:{KEY}|{NUM}(?:\.{NUM})+)"
ATTR = re.compile(rf"{OID}(?:;[A-Za-z0-9-]+)*\Z"); RULE = re.compile(rf"{OID}\Z")
def attrs(x):
    if isinstance(x, (f.FilterAnd, f.FilterOr)):
        for y in x.filters: yield from attrs(y)
    elif isinstance(x, f.FilterNot): yield from attrs(x.filter)
    elif isinstance(x, f.FilterExtensibleMatch):
        if x.attribute is not None: yield ("a", x.attribute)
        if x.rule is not None: yield ("r", x.rule)
    else: yield ("a", x.attribute)
cats = collections.Counter(); ex = {}
def note(k, s):
    cats[k] += 1; ex.setdefault(k, s)
t0 = time.time(); n = 0; acc = 0
L = int(sys.argv[1]) if len(sys.argv) > 1 else 4
for l in range(0, L + 1):
    for tup in itertools.product(A, repeat=l):
        s = "".join(tup); n += 1
        try:
            r = f.LDAPFilter.from_string(s)
        except f.FilterSyntaxError as e:
            bl = len(s.strip().encode("utf-8"))
            if not (0 <= e.offset and 0 <= e.length and e.offset + e.length <= bl): note(("offset-out-of-range", "nonascii" if "é" in s else "ascii"), (s, e.offset, e.length, bl))
            continue
        except BaseException as e:
            note(("exc", type(e).__name__), s); continue
        acc += 1
        for k, a in attrs(r):
            if k == "a" and not ATTR.match(a):
                note(("bad-attr", "single-arc" if re.match(rf"{NUM}(;[A-Za-z0-9-]+)*\Z", a) else ("newline" if a.endswith("\n") else "other")), (s, a))
            if k == "r" and not RULE.match(a): note(("bad-rule",), (s, a))
        try:
            r2 = f.LDAPFilter.from_string(str(r))
            if r2 != r: note(("reparse-differs",), (s, str(r), r, r2))
        except BaseException as e:
            note(("reparse-exc", type(e).__name__), (s, str(r)))
print("strings", n, "accepted", acc, f"{time.time()-t0:.1f}s")
for k, c in sorted(cats.items(), key=str): print(k, c, repr(ex[k])[:200])
