import copy, collections, sys, time
sys.path.insert(0, "/repo/src")
import sansldap
from sansldap import *
from sansldap._messages import PackingOptions
S = SessionState
OPT = PackingOptions()
NOTICE = "1.3.6.1.4.1.1466.20036"
R = lambda code=LDAPResultCode.SUCCESS: LDAPResult(code, "", "", None)
K = int(sys.argv[1]) if len(sys.argv) > 1 else 3

def freeze(o):
    if isinstance(o, (bytes, str, int, float, type(None), bool)): return o
    if isinstance(o, bytearray): return bytes(o)
    if isinstance(o, (set, frozenset)): return ("set",) + tuple(sorted(freeze(x) for x in o))
    if isinstance(o, (list, tuple)): return tuple(freeze(x) for x in o)
    if isinstance(o, dict): return tuple(sorted((k, freeze(v)) for k, v in o.items()))
    if isinstance(o, type): return o.__qualname__
    if hasattr(o, "__dict__"): return (type(o).__qualname__,) + freeze(vars(o))
    return repr(o)

def resp_msgs(ids):
    out = []
    for i in ids:
        out += [("BindResp-ok", BindResponse(i, [], R(), None)), ("BindResp-sasl", BindResponse(i, [], R(LDAPResultCode.SASL_BIND_IN_PROGRESS), b"x")),
                ("BindResp-bad", BindResponse(i, [], R(LDAPResultCode.INVALID_CREDENTIALS), None)),
                ("Entry", SearchResultEntry(i, [], "", [])), ("Ref", SearchResultReference(i, [], ["u"])), ("Done", SearchResultDone(i, [], R())),
                ("ExtResp", ExtendedResponse(i, [], R(), None, None)), ("Notice", ExtendedResponse(i, [], R(), NOTICE, None))]
    return out
def req_msgs(ids):
    out = []
    for i in ids:
        out += [("BindReq", BindRequest(i, [], 3, "", SimpleCredential(""))), ("SearchReq", SearchRequest(i, [], "", SearchScope.BASE, DereferencingPolicy.NEVER, 0, 0, False, FilterPresent("a"), [])),
                ("ExtReq", ExtendedRequest(i, [], "1.2", None)), ("Unbind", UnbindRequest(i, []))]
    return out

def client_events():
    ev = [("call", "bind", lambda c: c.bind_simple()), ("call", "search", lambda c: c.search_request()), ("call", "ext", lambda c: c.extended_request("1.2")), ("call", "unbind", lambda c: c.unbind())]
    ids = range(0, K + 2)
    for n, m in resp_msgs(ids) + req_msgs([0, 1]):
        ev.append(("recv", (n, m.message_id), m))
    ev.append(("recvbad", "garbage", b"\x04\x00"))
    return ev
def server_events():
    ev = [("call", "unbind", lambda s: s.unbind())]
    ids = range(0, K + 1)
    for i in ids:
        ev += [("call", ("bind_response-ok", i), lambda s, i=i: s.bind_response(i)), ("call", ("bind_response-sasl", i), lambda s, i=i: s.bind_response(i, b"x", LDAPResultCode.SASL_BIND_IN_PROGRESS)),
               ("call", ("bind_response-bad", i), lambda s, i=i: s.bind_response(i, None, LDAPResultCode.INVALID_CREDENTIALS)),
               ("call", ("ext_response", i), lambda s, i=i: s.extended_response(i)), ("call", ("notice", i), lambda s, i=i: s.extended_response(i, NOTICE)),
               ("call", ("entry", i), lambda s, i=i: s.search_result_entry(i, "", [])), ("call", ("ref", i), lambda s, i=i: s.search_result_reference(i, ["u"])), ("call", ("done", i), lambda s, i=i: s.search_result_done(i))]
    for n, m in req_msgs(ids) + resp_msgs([0, 1]):
        ev.append(("recv", (n, m.message_id), m))
    ev.append(("recvbad", "garbage", b"\x04\x00"))
    return ev

def explore(role):
    mk = LDAPClient if role == "client" else LDAPServer
    events = client_events() if role == "client" else server_events()
    init = mk()
    # ghost: (sent_or_received_any, inprog dict id->kind or 'unk', issued count)
    g0 = (False, (), 0)
    seen = {(freeze(init), g0): None}
    frontier = collections.deque([(init, g0, [])])
    trans = 0; viol = collections.Counter(); first = {}
    def flag(k, hist, lab):
        viol[k] += 1
        if k not in first: first[k] = hist + [lab]
    while frontier:
        s, g, hist = frontier.popleft()
        traffic, inprog_t, issued = g
        inprog = dict(inprog_t)
        for kind, lab, arg in events:
            if role == "client" and kind == "call" and lab in ("bind", "search", "ext") and issued >= K: continue
            s2 = copy.deepcopy(s); pre = s.state
            exc = None; ret = None
            try:
                if kind == "call": ret = arg(s2)
                elif kind == "recv": ret = s2.receive(arg.pack(OPT))
                else: ret = s2.receive(arg)
            except BaseException as e: exc = e
            out = s2.data_to_send(); post = s2.state; trans += 1
            lib = exc is None or isinstance(exc, LDAPError)
            if not lib: flag(("g-nonlib-exc", type(exc).__name__, kind), hist, lab)
            accepted = exc is None
            traffic2, inprog2, issued2 = traffic, dict(inprog), issued
            # (a) closed absorbing
            if pre == S.CLOSED:
                if post != S.CLOSED: flag(("a-closed-left", str(lab if kind=="call" else kind)), hist, lab)
                if accepted: flag(("a-closed-accepted", kind), hist, lab)
                if out: flag(("a-closed-bytes", kind), hist, lab)
            # C10: rejected send calls leave no bytes
            if kind == "call" and not accepted and out: flag(("C10-rejected-bytes", lab if isinstance(lab,str) else lab[0]), hist, lab)
            msgkind = None
            if kind == "call": msgkind = lab if isinstance(lab, str) else lab[0]
            elif kind == "recv": msgkind = lab[0]
            is_bindreq_evt = accepted and ((role == "client" and kind == "call" and lab == "bind") or (role == "server" and kind == "recv" and msgkind == "BindReq"))
            is_bindresp_final = accepted and ((role == "server" and kind == "call" and msgkind in ("bind_response-ok", "bind_response-bad")) or (role == "client" and kind == "recv" and msgkind in ("BindResp-ok", "BindResp-bad")))
            term = post == S.CLOSED
            if pre != S.CLOSED:
                # (b)
                if pre != S.BINDING and post == S.BINDING and not is_bindreq_evt: flag(("b-binding-entered-wo-bindreq", str(msgkind)), hist, lab)
                if is_bindreq_evt and post != S.BINDING: flag(("b-bindreq-not-binding",), hist, lab)
                # (c)
                if pre == S.BINDING and post not in (S.BINDING, S.CLOSED) and not is_bindresp_final: flag(("c-binding-left", str(msgkind), "accepted" if accepted else "rejected"), hist, lab)
                if pre == S.BINDING and is_bindresp_final and post != S.OPENED: flag(("c-bindresp-stays",), hist, lab)
                # (d)
                if is_bindreq_evt and any(True for _ in inprog): flag(("d-bind-with-outstanding",), hist, lab)
                # (e)
                if pre == S.BINDING and kind == "call" and accepted and msgkind not in ("bind", "unbind", "notice") and not msgkind.startswith("bind_response"): flag(("e-binding-sent", msgkind), hist, lab)
                # (f)
                msg_ok = accepted and kind in ("call", "recv") or (kind == "recv" and exc is not None and False)
                if accepted and post == S.BEFORE_OPEN and kind in ("call","recv"): flag(("f-traffic-but-before-open",), hist, lab)
                if pre == S.BEFORE_OPEN and post != S.BEFORE_OPEN and not accepted and post != S.CLOSED: flag(("f-opened-without-traffic", str(msgkind)), hist, lab)
            # ghost update
            if accepted and kind == "call" and role == "client" and lab in ("bind", "search", "ext"):
                issued2 += 1
                if not (isinstance(ret, int) and ret == issued2): flag(("C09-id", ret, issued2), hist, lab)
                inprog2[ret] = lab
            if role == "client" and kind == "recv" and pre != S.CLOSED and msgkind in [n for n,_ in resp_msgs([0])] and msgkind != "Notice":
                i = lab[1]
                exp = i in inprog
                if inprog.get(i) != "unk":
                    if exp != accepted: flag(("C09-accept", msgkind, "exp" if exp else "notexp"), hist, lab)
                if accepted:
                    k0 = inprog.get(i)
                    if k0 == "search":
                        if msgkind == "Done": inprog2.pop(i, None)
                        elif msgkind in ("Entry", "Ref"): pass
                        else: inprog2[i] = "unk"
                    else: inprog2.pop(i, None)
            if role == "server" and kind == "recv" and accepted and msgkind in ("BindReq", "SearchReq", "ExtReq"):
                inprog2[lab[1]] = {"BindReq": "bind", "SearchReq": "search", "ExtReq": "ext"}[msgkind]
            if role == "server" and kind == "call" and lab != "unbind":
                i = lab[1]
                if accepted and i not in inprog: flag(("C10-resp-unknown-accepted", msgkind), hist, lab)
                if accepted and msgkind not in ("entry", "ref"): inprog2.pop(i, None)
            if post == S.CLOSED: inprog2 = {}
            g2 = (traffic or accepted, tuple(sorted(inprog2.items())), issued2)
            key = (freeze(s2), g2)
            if key not in seen:
                seen[key] = 1
                frontier.append((s2, g2, hist + [lab]))
    return len(seen), trans, viol, first

if __name__=="__main__":
  for role in ("client", "server"):
    t0 = time.time()
    n, t, v, first = explore(role)
    print(role, "K=", K, "states", n, "transitions", t, f"{time.time()-t0:.1f}s")
    for k, c in sorted(v.items(), key=str): print("   ", k, c, " e.g.", first[k][-4:])
