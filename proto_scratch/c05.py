import sys, itertools, collections, time
sys.path.insert(0, "/repo/src")
from sansldap import *
from sansldap._messages import PackingOptions
opt = PackingOptions()
R = LDAPResult(LDAPResultCode.REFERRAL, "dn", "msg", ["u1"])
base = [BindRequest(1, [LDAPControl("1.2", True, b"v"), PagedResultControl(False, 5, b"ck")], 3, "n", SaslCredential("M", b"c")),
        BindRequest(1, [], 3, "n", SimpleCredential("p")), BindResponse(1, [], R, b"s"), UnbindRequest(1, []),
        SearchRequest(1, [ShowDeletedControl(True)], "b", SearchScope.ONE_LEVEL, DereferencingPolicy.ALWAYS, 7, 9, True,
                      FilterAnd([FilterOr([FilterNot(FilterEquality("a", b"v"))]), FilterSubstrings("a", b"i", [b"x", b"y"], b"f"), FilterGreaterOrEqual("a", b"1"), FilterPresent("p"), FilterExtensibleMatch("r", "t", b"v", True)]), ["x", "y"]),
        SearchResultEntry(1, [], "o", [PartialAttribute("a", [b"1", b"2"])]), SearchResultDone(1, [], R), SearchResultReference(1, [], ["u"]),
        ExtendedRequest(1, [], "1.2", b"v"), ExtendedResponse(1, [], R, "1.3", b"w")]
cats = collections.Counter(); ex = {}
def feed(mk, data, tag):
    s = mk()
    try:
        s.receive(data); return
    except ProtocolError as e:
        if s.state != SessionState.CLOSED: cats[("not-closed-after-PE", tag)] += 1; ex.setdefault(("not-closed-after-PE", tag), data.hex())
        return
    except BaseException as e:
        k = ("exc", type(e).__name__, str(e)[:40]); cats[k] += 1; ex.setdefault(k, data.hex())
t0 = time.time(); n = 0
for m in base:
    b = m.pack(opt)
    for i in range(len(b)):
        for v in range(256):
            if v == b[i]: continue
            d = b[:i] + bytes([v]) + b[i+1:]
            for mk in (LDAPServer, LDAPClient): feed(mk, d, "repl"); n += 1
    for i in range(len(b)):
        for mk in (LDAPServer, LDAPClient): feed(mk, b[:i], "trunc"); n += 1
S = bytes.fromhex("000102040 50a30314260637 87f80818 4a0ff".replace(" ", ""))
for l in range(1, 6):
    for t in itertools.product(S, repeat=l):
        feed(LDAPServer, bytes(t), "short"); n += 1
print("inputs", n, f"{time.time()-t0:.1f}s")
for k, c in sorted(cats.items(), key=str): print(k, c, ex[k][:80])
