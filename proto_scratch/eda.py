import re, sys, itertools, collections, time
import re._parser as P
from re._constants import *
sys.setrecursionlimit(10000)

class NFA:
    def __init__(self):
        self.n=0; self.eps=collections.defaultdict(list); self.sym=collections.defaultdict(list); self.atoms=[]
    def new(self):
        self.n+=1; return self.n-1
    def atom(self, a):
        self.atoms.append(a); return len(self.atoms)-1

def build(nfa, sp, s):
    """returns end state after matching sequence sp from s"""
    cur = s
    for op, av in sp:
        cur = build1(nfa, op, av, cur)
    return cur

def build1(nfa, op, av, s):
    if op in (LITERAL, NOT_LITERAL, IN, ANY):
        e = nfa.new(); a = nfa.atom((op, av)); nfa.sym[s].append((a, e)); return e
    if op is AT:
        return s
    if op is SUBPATTERN:
        return build(nfa, av[3], s)
    if op is BRANCH:
        e = nfa.new()
        for b in av[1]:
            bs = nfa.new(); nfa.eps[s].append(bs)
            be = build(nfa, b, bs); nfa.eps[be].append(e)
        return e
    if op in (MAX_REPEAT, MIN_REPEAT):
        lo, hi, body = av
        cur = s
        for _ in range(lo):
            cur = build(nfa, body, cur)
        if hi is MAXREPEAT:
            # loop
            ls = nfa.new(); nfa.eps[cur].append(ls)
            be = build(nfa, body, ls)
            nfa.eps[be].append(ls)
            e = nfa.new(); nfa.eps[ls].append(e)
            return e
        else:
            e = nfa.new(); nfa.eps[cur].append(e)
            for _ in range(hi-lo):
                ns = nfa.new(); nfa.eps[cur].append(ns)
                cur = build(nfa, body, ns)
                nfa.eps[cur].append(e)
            return e
    raise NotImplementedError(op)

def atom_match(atom, ch, flags=0):
    op, av = atom
    c = ord(ch) if isinstance(ch,str) else ch
    if op is LITERAL: return c==av
    if op is NOT_LITERAL: return c!=av
    if op is ANY: return c!=10
    if op is IN:
        neg=False; res=False
        for o,a in av:
            if o is NEGATE: neg=True
            elif o is LITERAL: res |= (c==a)
            elif o is RANGE: res |= (a[0]<=c<=a[1])
            elif o is CATEGORY:
                s = chr(c)
                if a is CATEGORY_DIGIT: res |= s.isdigit()
                elif a is CATEGORY_SPACE: res |= s.isspace()
                elif a is CATEGORY_WORD: res |= (s.isalnum() or s=='_')
                else: raise NotImplementedError(a)
        return res != neg
    raise NotImplementedError

def minterms(nfa, isbytes):
    cands=set([0,1,9,10,32,48,65,95,97,126,127,128,255, 0xe9, 0x10000])
    for op,av in nfa.atoms:
        if op in (LITERAL, NOT_LITERAL): cands.update([av-1,av,av+1])
        elif op is IN:
            for o,a in av:
                if o is LITERAL: cands.update([a-1,a,a+1])
                elif o is RANGE: cands.update([a[0]-1,a[0],a[1],a[1]+1])
    if isbytes: cands = set(range(256))
    sig={}
    for c in sorted(x for x in cands if 0<=x<=0x10ffff and (not isbytes or x<256)):
        k = tuple(atom_match(a, c) for a in nfa.atoms)
        if any(k): sig.setdefault(k, c)
    return sig

def analyse(pattern, flags=0):
    sp = P.parse(pattern, flags)
    nfa = NFA(); s0 = nfa.new(); end = build(nfa, sp, s0)
    sig = minterms(nfa, isinstance(pattern, bytes))
    # eps-free edges with path multiplicity: from each "anchor" state (s0 and sym targets)
    anchors = {s0} | {q for p in nfa.sym for (_,q) in nfa.sym[p]}
    edges = collections.defaultdict(list)  # p -> list of (atom, q, pathid)
    def epaths(p):
        out=[]; 
        def dfs(u, path, onpath):
            for (a,q) in nfa.sym.get(u,[]): out.append((a,q,tuple(path)))
            for v in nfa.eps.get(u,[]):
                if v in onpath: continue
                onpath.add(v); path.append(v); dfs(v,path,onpath); path.pop(); onpath.discard(v)
        dfs(p,[p],{p}); return out
    E=[]  # edge list: (src, atom, dst)
    for p in anchors:
        for (a,q,path) in epaths(p):
            E.append((p,a,q,path))
    # line graph states = edges; adjacency by dst==src
    bysrc=collections.defaultdict(list)
    for i,e in enumerate(E): bysrc[e[0]].append(i)
    # SCCs of anchor graph
    import networkx as nx
    G=nx.DiGraph(); G.add_nodes_from(anchors)
    for (p,a,q,_) in E: G.add_edge(p,q)
    res=[]; nodes=0; trans=0
    for scc in nx.strongly_connected_components(G):
        if len(scc)==1:
            (x,)=scc
            if not G.has_edge(x,x): continue
        # edges inside scc
        Ei=[i for i,e in enumerate(E) if e[0] in scc and e[2] in scc]
        # product over edges (line graph): node (i,j) = pair of edges taken simultaneously on same minterm
        # compat: atoms of i and j share a minterm
        mt_of = {i: frozenset(k for k in sig if k[E[i][1]]) for i in Ei}
        PG=nx.DiGraph()
        pairs=[(i,j) for i in Ei for j in Ei if mt_of[i]&mt_of[j]]
        nodes+=len(pairs)
        pset=set(pairs)
        succ_edges={i:[k for k in bysrc[E[i][2]] if k in mt_of] for i in Ei}
        for (i,j) in pairs:
            for k in succ_edges[i]:
                for l in succ_edges[j]:
                    if (k,l) in pset:
                        PG.add_edge((i,j),(k,l)); trans+=1
        for c in nx.strongly_connected_components(PG):
            if len(c)==1:
                (x,)=c
                if not PG.has_edge(x,x): continue
            diag=[x for x in c if x[0]==x[1]]; off=[x for x in c if x[0]!=x[1]]
            if diag and off:
                res.append((E[diag[0][0]], E[off[0][0]], E[off[0][1]])); break
    return dict(states=nfa.n, anchors=len(anchors), edges=len(E), minterms=len(sig), prod_nodes=nodes, prod_trans=trans, eda=res)

if __name__=="__main__":
    sys.path.insert(0,"/repo/src")
    import sansldap.schema as s, sansldap._filter as f
    pats = [("OC", s.OBJECT_CLASS_DESCRIPTION), ("AT", s.ATTRIBUTE_TYPE_DESCRIPTION), ("DCR", s.DIT_CONTENT_RULE_DESCRIPTION), ("NOIDLEN", s.NOIDLEN_MATCH), ("ATTR", f._ATTRIBUTE_PATTERN), ("HEX", f._HEX_PATTERN), ("ESC", f._LDAP_ESCAPE_PATTERN), ("STRESC", f._STRING_ESCAPE_PATTERN)]
    for name,p in pats:
        t0=time.time(); r = analyse(p.pattern, p.flags & ~re.UNICODE)
        eda = r.pop("eda")
        print(name, r, "EDA" if eda else "no-EDA", f"{time.time()-t0:.1f}s")
        for w in eda[:1]: print("   witness edges:", [(x[0], x[1], x[2]) for x in w])
    # fixed variants
    fixed = s.OBJECT_CLASS_DESCRIPTION.pattern.replace(r"[^'\\]+)+", r"[^'\\])+")
    print("fixed differs:", fixed != s.OBJECT_CLASS_DESCRIPTION.pattern)
    r = analyse(fixed, re.VERBOSE); print("OC fixed", "EDA" if r["eda"] else "no-EDA")
    fa = f._ATTRIBUTE_PATTERN.pattern.replace("(?:[0-9])|(?:[1-9][0-9]*)", "0|(?:[1-9][0-9]*)")
    r = analyse(fa, re.VERBOSE); print("ATTR fixed", "EDA" if r["eda"] else "no-EDA")
