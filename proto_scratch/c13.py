import sys, itertools, collections, time
sys.path.insert(0, "/repo/src")
import sansldap._filter as f
F = f.LDAPFilter.from_string
S = [bytes([c]) for c in b"()*\\\x00 =:~<>!&|\x7f\x80\xff5cC28"]
assert len(S) == 22
vals = [b""] + [bytes([a]) for a in range(256)] + [bytes([a, b]) for a in range(256) for b in range(256)]
vals += [b"".join(t) for l in (3,) for t in itertools.product(S, repeat=l)]
mk = [lambda v: f.FilterEquality("cn", v), lambda v: f.FilterGreaterOrEqual("cn", v), lambda v: f.FilterLessOrEqual("cn", v), lambda v: f.FilterApproxMatch("cn", v),
      lambda v: f.FilterExtensibleMatch("r", "cn", v, True), lambda v: f.FilterExtensibleMatch("2.5.13.2", None, v, False), lambda v: f.FilterNot(f.FilterAnd([f.FilterEquality("cn;x-1", v), f.FilterPresent("2.5.4.3")]))]
bad = collections.Counter(); ex = {}; n = 0; t0 = time.time()
for v in vals:
    for i, m in enumerate(mk):
        o = m(v); n += 1
        try:
            r = F(str(o))
            if r != o: bad[("differs", i)] += 1; ex.setdefault(("differs", i), (v, str(o), r))
        except BaseException as e:
            bad[("exc", i, type(e).__name__)] += 1; ex.setdefault(("exc", i, type(e).__name__), (v, str(o)))
# substrings
comps = [None] + [s for s in vals if 1 <= len(s) <= 1 and s in S] + [a + b for a in S[:8] for b in S[:8]]
for ini in comps:
    for fin in comps:
        for anyl in ([], [b"a"], [b"*"], [b"\\", b"("]):
            if ini is None and fin is None and not anyl: continue
            o = f.FilterSubstrings("cn", ini, anyl, fin); n += 1
            try:
                r = F(str(o))
                if r != o: bad[("sub-differs",)] += 1; ex.setdefault(("sub-differs",), (o, str(o), r))
            except BaseException as e:
                bad[("sub-exc", type(e).__name__)] += 1; ex.setdefault(("sub-exc", type(e).__name__), (o, str(o)))
print("checked", n, f"{time.time()-t0:.1f}s", dict(bad))
for k, v in ex.items(): print(k, repr(v)[:200])
