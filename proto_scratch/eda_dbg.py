import sys, re
sys.path.insert(0,"/repo/src")
from eda import *
import sansldap.schema as s
fixed = s.OBJECT_CLASS_DESCRIPTION.pattern.replace(r"[^'\\]+)+", r"[^'\\])+")
sp = P.parse(fixed, re.VERBOSE)
nfa = NFA(); s0 = nfa.new(); end = build(nfa, sp, s0)
r = analyse(fixed, re.VERBOSE)
for w in r["eda"]:
    for e in w:
        print(e[0], nfa.atoms[e[1]], e[2], e[3])
