"""scratch: RFC 4512 reference parser + bounded sentence generator vs sansldap.schema"""
import sys, itertools, collections, time, re
sys.path.insert(0, "/repo/src")
import sansldap.schema as S

class Bad(Exception): pass
class P:
    def __init__(self, s): self.s = s; self.i = 0
    def peek(self, lit): return self.s.startswith(lit, self.i)
    def lit(self, l):
        if not self.peek(l): raise Bad(f"expected {l!r} at {self.i}")
        self.i += len(l)
    def wsp(self):
        while self.i < len(self.s) and self.s[self.i] == " ": self.i += 1
    def sp(self):
        if not self.peek(" "): raise Bad(f"SP at {self.i}")
        self.wsp()
    def rx(self, pat):
        m = re.compile(pat).match(self.s, self.i)
        if not m: raise Bad(f"{pat} at {self.i}")
        self.i = m.end(); return m.group(0)
    NUMOID = r"(0|[1-9][0-9]*)(\.(0|[1-9][0-9]*))+"; DESCR = r"[A-Za-z][A-Za-z0-9-]*"
    def numericoid(self): return self.rx(self.NUMOID)
    def oid(self): return self.rx(f"{self.DESCR}|{self.NUMOID}")
    def qdescr(self):
        self.lit("'"); d = self.rx(self.DESCR); self.lit("'"); return d
    def qdescrs(self):
        if self.peek("'"): return [self.qdescr()]
        self.lit("("); self.wsp(); out = []
        if self.peek("'"):
            out.append(self.qdescr())
            while True:
                j = self.i; 
                try: self.sp(); 
                except Bad: break
                if self.peek("'"): out.append(self.qdescr())
                else: self.i = j; break
        self.wsp(); self.lit(")"); return out
    def oids(self):
        if not self.peek("("): return [self.oid()]
        self.lit("("); self.wsp(); out = [self.oid()]
        while True:
            j = self.i; self.wsp()
            if self.peek("$"): self.lit("$"); self.wsp(); out.append(self.oid())
            else: self.i = j; break
        self.wsp(); self.lit(")"); return out
    def qdstring(self):
        self.lit("'"); out = []
        while not self.peek("'"):
            if self.i >= len(self.s): raise Bad("eof in qdstring")
            if self.peek("\\27"): out.append("'"); self.i += 3
            elif self.peek("\\5c") or self.peek("\\5C"): out.append("\\"); self.i += 3
            elif self.peek("\\"): raise Bad("bad escape")
            else: out.append(self.s[self.i]); self.i += 1
        if not out: raise Bad("empty dstring")
        self.lit("'"); return "".join(out)
    def qdstrings(self):
        if self.peek("'"): return [self.qdstring()]
        self.lit("("); self.wsp(); out = []
        if self.peek("'"):
            out.append(self.qdstring())
            while True:
                j = self.i
                try: self.sp()
                except Bad: break
                if self.peek("'"): out.append(self.qdstring())
                else: self.i = j; break
        self.wsp(); self.lit(")"); return out
    def opt(self, kw):
        """[ SP kw ] lookahead"""
        j = self.i
        try:
            self.sp()
            if self.peek(kw) and not re.match(r"[A-Za-z0-9-]", self.s[self.i+len(kw):self.i+len(kw)+1] or " "):
                self.i += len(kw); return True
        except Bad: pass
        self.i = j; return False
    def extensions(self):
        ext = {}
        while True:
            j = self.i
            try:
                self.sp(); k = self.rx(r"[xX]-[A-Za-z_-]+"); self.sp(); ext[k[2:]] = self.qdstrings()
            except Bad:
                self.i = j; break
        return ext

def common_head(p):
    p.lit("("); p.wsp(); r = {"oid": p.numericoid(), "names": [], "description": None, "obsolete": False}
    if p.opt("NAME"): p.sp(); r["names"] = p.qdescrs()
    if p.opt("DESC"): p.sp(); r["description"] = p.qdstring()
    if p.opt("OBSOLETE"): r["obsolete"] = True
    return r
def tail(p, r):
    r["extensions"] = p.extensions(); p.wsp(); p.lit(")"); return r
def ref_oc(s):
    p = P(s); r = common_head(p); r.update(super_types=[], kind="STRUCTURAL", must=[], may=[])
    if p.opt("SUP"): p.sp(); r["super_types"] = p.oids()
    for k in ("ABSTRACT", "STRUCTURAL", "AUXILIARY"):
        if p.opt(k): r["kind"] = k; break
    if p.opt("MUST"): p.sp(); r["must"] = p.oids()
    if p.opt("MAY"): p.sp(); r["may"] = p.oids()
    return tail(p, r)
def ref_at(s):
    p = P(s); r = common_head(p); r.update(super_type=None, equality=None, ordering=None, substrings=None, syntax=None, syntax_length=None, single_value=False, collective=False, no_user_modification=False, usage="userApplications")
    for kw, f in (("SUP", "super_type"), ("EQUALITY", "equality"), ("ORDERING", "ordering"), ("SUBSTR", "substrings")):
        if p.opt(kw): p.sp(); r[f] = p.oid()
    if p.opt("SYNTAX"):
        p.sp(); q = p.peek("'")
        if q: p.lit("'")
        r["syntax"] = p.numericoid()
        if p.peek("{"): p.lit("{"); r["syntax_length"] = int(p.rx(r"0|[1-9][0-9]*")); p.lit("}")
        if q: p.lit("'")
    for kw, f in (("SINGLE-VALUE", "single_value"), ("COLLECTIVE", "collective"), ("NO-USER-MODIFICATION", "no_user_modification")):
        if p.opt(kw): r[f] = True
    if p.opt("USAGE"): p.sp(); r["usage"] = p.rx("userApplications|directoryOperation|distributedOperation|dSAOperation")
    return tail(p, r)
def ref_dcr(s):
    p = P(s); r = common_head(p); r.update(aux=[], must=[], may=[], never=[])
    for kw, f in (("AUX", "aux"), ("MUST", "must"), ("MAY", "may"), ("NOT", "never")):
        if p.opt(kw): p.sp(); r[f] = p.oids()
    return tail(p, r)
def absd(o):
    d = dict(vars(o))
    for k, v in d.items():
        if hasattr(v, "value") and isinstance(v, str): d[k] = v.value
    return d

# ------------- generator: sentence = list of tokens where "W"=WSP slot, "S"=SP slot -------------
DSTR = ["a", "é", "a b", "(", ")", "$", "X-", "\\27", "\\5c", "\\5C", "|", "x\\27y"]
def qdescrs_forms(): return [["'cn'"], ["(", "W", "'cn'", "W", ")"], ["(", "W", "'cn'", "S", "'a-1'", "W", ")"], ["(", "W", "W", ")"]]
def oids_forms(): return [["top"], ["2.5.6.0"], ["(", "W", "top", "W", ")"], ["(", "W", "a", "W", "$", "W", "2.5.4.3", "W", ")"], ["(", "W", "a", "W", "$", "W", "b", "W", "$", "W", "c", "W", ")"]]
def qdstrings_forms(vals): 
    out = [[f"'{v}'"] for v in vals]
    out += [["(", "W", f"'{vals[0]}'", "W", ")"], ["(", "W", f"'{vals[0]}'", "S", f"'{vals[1]}'", "W", ")"], ["(", "W", "W", ")"]]
    return out
def ext_forms():
    E = []
    for q in qdstrings_forms(DSTR): E.append(["S", "X-ORIGIN", "S"] + q)
    E.append(["S", "x-a_b-c", "S", "'v'"])
    two = [a + b for a in E[:4] + E[-4:] for b in [["S", "X-B", "S", "'w'"], ["S", "X-B", "S", "(", "W", "'w'", "S", "'z'", "W", ")"]]]
    return [[]] + E + two
def clause(kw, forms): return [[]] + [["S", kw, "S"] + f for f in forms]
def flag(kw): return [[], ["S", kw]]
def head():
    return [[["(", "W", "1.2.3"]], clause("NAME", qdescrs_forms()), clause("DESC", [[f"'{v}'"] for v in DSTR]), flag("OBSOLETE")]
def dev_product(parts, maxdev):
    """all combos deviating from first option in <= maxdev parts"""
    base = [p[0] for p in parts]
    yield base
    for d in range(1, maxdev + 1):
        for idxs in itertools.combinations(range(len(parts)), d):
            for choice in itertools.product(*[range(1, len(parts[i])) for i in idxs]):
                cur = list(base)
                for i, c in zip(idxs, choice): cur[i] = parts[i][c]
                yield cur
def render(tokens, widen):
    out = []; k = 0
    for t in tokens:
        if t in ("W", "S"):
            base = 0 if t == "W" else 1
            out.append(" " * (base + widen.get(k, 0))); k += 1
        else: out.append(t)
    return "".join(out), k
def spacings(tokens, maxw):
    nsl = sum(1 for t in tokens if t in ("W", "S"))
    yield {}
    for d in range(1, maxw + 1):
        for idxs in itertools.combinations(range(nsl), d):
            for ws in itertools.product((1, 2), repeat=d): yield dict(zip(idxs, ws))
    yield {i: 1 for i in range(nsl)}

def run(kind, maxdev, maxw):
    if kind == "oc":
        parts = head() + [clause("SUP", oids_forms()), [[], ["S", "ABSTRACT"], ["S", "STRUCTURAL"], ["S", "AUXILIARY"]], clause("MUST", oids_forms()), clause("MAY", oids_forms()), ext_forms(), [["W", ")"]]]
        ref, cls = ref_oc, S.ObjectClassDescription
    elif kind == "at":
        parts = head() + [clause("SUP", [["name"], ["2.5.4.41"]]), clause("EQUALITY", [["caseIgnoreMatch"]]), clause("ORDERING", [["1.2.3.4"]]), clause("SUBSTR", [["x-y"]]),
                          clause("SYNTAX", [["1.3.6.1"], ["1.3.6.1{64}"], ["1.3.6.1{0}"], ["'1.3.6.1'"], ["'1.3.6.1{5}'"]]), flag("SINGLE-VALUE"), flag("COLLECTIVE"), flag("NO-USER-MODIFICATION"),
                          clause("USAGE", [["userApplications"], ["directoryOperation"], ["distributedOperation"], ["dSAOperation"]]), ext_forms(), [["W", ")"]]]
        ref, cls = ref_at, S.AttributeTypeDescription
    else:
        parts = head() + [clause("AUX", oids_forms()), clause("MUST", oids_forms()), clause("MAY", oids_forms()), clause("NOT", oids_forms()), ext_forms(), [["W", ")"]]]
        ref, cls = ref_dcr, S.DITContentRuleDescription
    n = 0; bad = collections.Counter(); ex = {}; t0 = time.time()
    for combo in dev_product(parts, maxdev):
        tokens = [t for part in combo for t in part]
        for widen in spacings(tokens, maxw):
            s, _ = render(tokens, widen); n += 1
            try: exp = ref(s)
            except Bad as e:
                k = ("GENERATOR-BUG", str(e)[:30]); bad[k] += 1; ex.setdefault(k, s); continue
            try: got = absd(cls.from_string(s))
            except ValueError as e:
                k = ("rejected", str(e)[:45], "multispace-after-x" if re.search(r"[xX]-[A-Za-z_-]+  ", s) else "other"); bad[k] += 1; ex.setdefault(k, s); continue
            except BaseException as e:
                k = ("EXC", type(e).__name__); bad[k] += 1; ex.setdefault(k, s); continue
            if got != exp:
                diff = [k for k in exp if exp[k] != got.get(k)]
                k = ("differs", tuple(diff), "multispace-after-x" if re.search(r"[xX]-[A-Za-z_-]+  ", s) else "other"); bad[k] += 1; ex.setdefault(k, (s, {d: (exp[d], got.get(d)) for d in diff}))
    print(kind, "sentences", n, f"{time.time()-t0:.1f}s")
    for k, c in sorted(bad.items(), key=str): print("  ", k, c, repr(ex[k])[:260])
for kind in ("oc", "at", "dcr"): run(kind, int(sys.argv[1]) if len(sys.argv) > 1 else 2, int(sys.argv[2]) if len(sys.argv) > 2 else 1)
