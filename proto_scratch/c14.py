"""scratch: RFC 4515 reference parser + bounded sentence generator vs sansldap"""
import sys, itertools, collections, time, re
sys.path.insert(0, "/repo/src")
import sansldap._filter as f

# ---------- reference parser (strict RFC 4515 + tolerated space slots) ----------
class Bad(Exception): pass
KEYCH = set(b"abcdefghijklmnopqrstuvwxyzABCDEFGHIJKLMNOPQRSTUVWXYZ0123456789-")
def p_filter(b, i):
    i = sp(b, i)
    if i >= len(b) or b[i] != 0x28: raise Bad("expected (")
    i += 1; i = sp(b, i)                     # slot S1
    if i >= len(b): raise Bad("eof")
    c = b[i]
    if c in b"&|":
        i += 1; subs = []
        while True:
            i = sp(b, i)                      # slot S2
            if i < len(b) and b[i] == 0x28:
                t, i = p_filter(b, i); subs.append(t)
            else: break
        if not subs: raise Bad("empty list")
        node = ("and" if c == 0x26 else "or", tuple(subs))
    elif c == 0x21:
        i += 1; i = sp(b, i)
        t, i = p_filter(b, i); i = sp(b, i)
        node = ("not", t)
    else:
        j = b.find(b")", i)
        if j < 0: raise Bad("no )")
        node = p_item(b[i:j]); i = j
    if i >= len(b) or b[i] != 0x29: raise Bad("expected )")
    return node, i + 1
def sp(b, i):
    while i < len(b) and b[i] == 0x20: i += 1
    return i
def val(v):
    out = bytearray(); i = 0
    while i < len(v):
        c = v[i]
        if c == 0x5c:
            h = v[i+1:i+3]
            if len(h) != 2 or not re.fullmatch(rb"[0-9a-fA-F]{2}", h): raise Bad("escape")
            out.append(int(h, 16)); i += 3
        elif c in (0, 0x28, 0x29, 0x2a): raise Bad("raw special")
        else: out.append(c); i += 1
    return bytes(out)
def is_oid(s):
    return re.fullmatch(r"[A-Za-z][A-Za-z0-9-]*|(0|[1-9][0-9]*)(\.(0|[1-9][0-9]*))+", s) is not None
def is_attr(s):
    p = s.split(";")
    return is_oid(p[0]) and all(re.fullmatch(r"[A-Za-z0-9-]+", o) for o in p[1:])
def p_item(it):
    e = it.find(b"=")
    if e < 0: raise Bad("no =")
    left, right = it[:e], it[e+1:]
    if left.endswith(b":"):
        hdr = left[:-1].decode(); parts = hdr.split(":")
        attr = parts.pop(0) or None; dn = False; rule = None
        if attr is not None and not is_attr(attr): raise Bad("attr")
        if parts and parts[0].lower() == "dn": dn = True; parts.pop(0)
        if parts: rule = parts.pop(0)
        if parts: raise Bad("extra")
        if rule is not None and not is_oid(rule): raise Bad("rule")
        if attr is None and rule is None: raise Bad("need rule")
        return ("ext", rule, attr, val(right), dn)
    for suf, k in ((b"~", "approx"), (b">", "ge"), (b"<", "le")):
        if left.endswith(suf):
            a = left[:-1].decode()
            if not is_attr(a): raise Bad("attr")
            return (k, a, val(right))
    a = left.decode()
    if not is_attr(a): raise Bad("attr")
    if right == b"*": return ("present", a)
    if b"*" in right:
        ps = right.split(b"*")
        ini = val(ps[0]) if ps[0] else None; fin = val(ps[-1]) if ps[-1] else None
        if any(not x for x in ps[1:-1]): raise Bad("empty any")
        return ("sub", a, ini, tuple(val(x) for x in ps[1:-1]), fin)
    return ("eq", a, val(right))
def ref_parse(s):
    b = s.encode("utf-8")
    t, i = p_filter(b, 0); i = sp(b, i)
    if i != len(b): raise Bad("trailing")
    return t
def absf(x):
    if isinstance(x, f.FilterAnd): return ("and", tuple(absf(y) for y in x.filters))
    if isinstance(x, f.FilterOr): return ("or", tuple(absf(y) for y in x.filters))
    if isinstance(x, f.FilterNot): return ("not", absf(x.filter))
    if isinstance(x, f.FilterEquality): return ("eq", x.attribute, x.value)
    if isinstance(x, f.FilterApproxMatch): return ("approx", x.attribute, x.value)
    if isinstance(x, f.FilterGreaterOrEqual): return ("ge", x.attribute, x.value)
    if isinstance(x, f.FilterLessOrEqual): return ("le", x.attribute, x.value)
    if isinstance(x, f.FilterPresent): return ("present", x.attribute)
    if isinstance(x, f.FilterSubstrings): return ("sub", x.attribute, x.initial, tuple(x.any), x.final)
    if isinstance(x, f.FilterExtensibleMatch): return ("ext", x.rule, x.attribute, x.value, x.dn_attributes)
    raise TypeError(x)

# ---------- generator ----------
ATTRS = ["cn", "2.5.4.3", "cn;lang-en", "a-b;x-1;y"]
VTOK = ["a", " ", "\\28", "\\2A", "\\2a", "\\5c", "\\00", "\\C3\\a9", "é", "=", ":", "~"]
def values(maxlen):
    yield ""
    for l in range(1, maxlen + 1):
        for t in itertools.product(VTOK, repeat=l): yield "".join(t)
def items(vmax):
    V = list(values(vmax)); V1 = [v for v in values(1)]; NV = [v for v in V1 if v]
    for a in ATTRS:
        yield f"{a}=*"
        for v in (V if a == "cn" else V1):
            for op in ("=", "~=", ">=", "<="): yield f"{a}{op}{v}"
        for ini in [""] + NV[:5]:
            for fin in [""] + NV[:5]:
                for anyl in ([], ["a"], ["\\2a", " "]):
                    if not ini and not fin and not anyl: continue
                    yield f"{a}=" + "*".join([ini] + anyl + [fin])
    for a in ["", "cn", "cn;lang-en"]:
        for dn in ["", ":dn", ":DN", ":Dn"]:
            for r in ["", ":caseExactMatch", ":2.4.6.8.10"]:
                if not a and not r: continue
                for v in V1: yield f"{a}{dn}{r}:={v}"
def decorate(tree_fn, nslots, maxdev):
    """tree_fn(spaces: list[str]) -> string; enumerate slot assignments with <= maxdev non-empty + all"""
    combos = [()]
    for d in range(1, maxdev + 1): combos += list(itertools.combinations(range(nslots), d))
    for c in combos:
        for widths in itertools.product((1, 2), repeat=len(c)):
            s = [""] * nslots
            for idx, w in zip(c, widths): s[idx] = " " * w
            yield tree_fn(s)
    yield tree_fn([" "] * nslots)

def run(vmax, maxdev):
    IT = list(items(vmax)); small = [it for it in IT if len(it) <= 8][:60]
    n = 0; bad = collections.Counter(); ex = {}
    def check(s):
        nonlocal n; n += 1
        try: exp = ref_parse(s)
        except Bad as e:
            bad[("GENERATOR-BUG", str(e))] += 1; ex.setdefault(("GENERATOR-BUG", str(e)), s); return
        try: got = absf(f.LDAPFilter.from_string(s))
        except BaseException as e:
            k = ("rejected", type(e).__name__, str(e)[:40]); bad[k] += 1; ex.setdefault(k, s); return
        if got != exp:
            k = ("differs", exp[0], "DNcase" if re.search(r":D[Nn]|:dN", s) else "other"); bad[k] += 1; ex.setdefault(k, (s, exp, got))
    t0 = time.time()
    # depth 0: (item) with slots: pre, after "(", post
    for it in IT:
        for s in decorate(lambda sp_: f"{sp_[0]}({sp_[1]}{it}){sp_[2]}", 3, maxdev): check(s)
    # depth 1: not / and / or with 1-2 children from small
    for it in small:
        for s in decorate(lambda sp_: f"{sp_[0]}({sp_[1]}!{sp_[2]}({sp_[3]}{it}){sp_[4]}){sp_[5]}", 6, maxdev): check(s)
    for op in "&|":
        for a, b in itertools.product(small[:25], repeat=2):
            for s in decorate(lambda sp_: f"{sp_[0]}({sp_[1]}{op}{sp_[2]}({sp_[3]}{a}){sp_[4]}({sp_[5]}{b}){sp_[6]}){sp_[7]}", 8, maxdev): check(s)
    # depth 2 mixed
    for a, b, c in itertools.product(small[:8], repeat=3):
        for s in decorate(lambda sp_: f"({sp_[0]}&{sp_[1]}(|{sp_[2]}({a}){sp_[3]}(!{sp_[4]}({b}){sp_[5]}){sp_[6]}){sp_[7]}({c}){sp_[8]})", 9, maxdev): check(s)
    print("sentences", n, f"{time.time()-t0:.1f}s")
    for k, c in sorted(bad.items(), key=str): print(k, c, repr(ex[k])[:220])
run(int(sys.argv[1]) if len(sys.argv) > 1 else 2, int(sys.argv[2]) if len(sys.argv) > 2 else 2)
