import sys, itertools, collections
sys.path.insert(0, "/repo/src")
import sansldap.schema as s
A = list("'\\|()$ X-275cCé\n")
assert len(A) == 16
texts = ["".join(t) for l in (1, 2, 3) for t in itertools.product(A, repeat=l)] + ["a"*300, "\U0001F600"]
bad = collections.Counter(); ex = {}
for cls, mk in ((s.ObjectClassDescription, lambda t, e: s.ObjectClassDescription("1.2", ["cn"], t, False, ["top"], s.ObjectClassKind.AUXILIARY, ["a", "b"], [], e)),
                (s.AttributeTypeDescription, lambda t, e: s.AttributeTypeDescription("1.2", ["cn", "x"], t, True, "name", None, None, None, "1.3.6", 64, True, False, True, s.AttributeTypeUsage.DSA_OPERATION, e)),
                (s.DITContentRuleDescription, lambda t, e: s.DITContentRuleDescription("1.2", [], t, False, ["a"], ["b", "c"], [], ["d"], e))):
    for t in texts:
        for e in ({}, {"A": [t]}, {"a-b_c": [t, "z"], "ORIGIN": []}):
            o = mk(t, e)
            try:
                r = cls.from_string(str(o))
                if r != o:
                    k = ("differs", cls.__name__, "pipe" if "|" in t else "nopipe"); bad[k] += 1; ex.setdefault(k, (str(o), r))
            except BaseException as x:
                k = ("exc", cls.__name__, type(x).__name__, "pipe" if "|" in t else "nopipe"); bad[k] += 1; ex.setdefault(k, (t, str(o), str(x)))
print(dict(bad))
for k, v in ex.items(): print(k, repr(v)[:300])
