import copy, collections, sys, time
sys.path.insert(0, "/repo/src")
from sansldap import *
from sansldap._messages import PackingOptions
from solo import freeze, NOTICE
S = SessionState
K = int(sys.argv[1]) if len(sys.argv) > 1 else 2
CUTS = int(sys.argv[2]) if len(sys.argv) > 2 else 1

def frags(b):
    if not CUTS or len(b) < 4: return [b]
    return [b[:2], b[2:len(b)-1], b[len(b)-1:]]

class World:
    def __init__(self):
        self.c = LDAPClient(); self.s = LDAPServer()
        self.c2s = []; self.s2c = []          # fragment lists
        self.qc2s = []; self.qs2c = []        # ghost: repr of messages in flight
        self.srv_open = {}                    # ghost: id -> (kind, entries, refs, sasl_rounds)
        self.issued = 0; self.sasl = 0
    def key(self):
        return (freeze(self.c), freeze(self.s), tuple(self.c2s), tuple(self.s2c), tuple(self.qc2s), tuple(self.qs2c), tuple(sorted(self.srv_open.items())), self.issued, self.sasl)

def enabled(w):
    ev = []
    if w.c.state != S.CLOSED:
        if w.issued < K:
            ev += [("c", "bind"), ("c", "search"), ("c", "ext")]
        ev.append(("c", "unbind"))
    if w.s.state != S.CLOSED:
        for i, (kind, ne, nr) in sorted(w.srv_open.items()):
            if kind == "bind":
                ev += [("s", "bind_ok", i), ("s", "bind_bad", i)]
                if w.sasl < 2: ev.append(("s", "bind_sasl", i))
            elif kind == "search":
                if ne < 1: ev.append(("s", "entry", i))
                if nr < 1: ev.append(("s", "ref", i))
                ev.append(("s", "done", i))
            else:
                ev.append(("s", "extresp", i))
            ev.append(("s", "notice", i))
        ev.append(("s", "unbind"))
    if w.c2s and w.s.state != S.CLOSED: ev.append(("d", "c2s"))
    if w.s2c and w.c.state != S.CLOSED: ev.append(("d", "s2c"))
    return ev

def probe(w):
    """observational in-progress sets"""
    res = []
    for i in range(0, K + 2):
        sc = copy.deepcopy(w.s); cc = copy.deepcopy(w.c)
        kinds = {}
        sa = False
        for call in (lambda s: s.extended_response(i), lambda s: s.bind_response(i), lambda s: s.search_result_entry(i, "", [])):
            sc = copy.deepcopy(w.s)
            try: call(sc); sa = True
            except LDAPError: pass
            except KeyError: sa = True
        msg = ExtendedResponse(i, [], LDAPResult(LDAPResultCode.SUCCESS, "", "", None), None, None)
        try: cc.receive(msg.pack(PackingOptions())); ca = True
        except ProtocolError: ca = False
        res.append((i, sa, ca))
    return res

def step(w, ev):
    """returns (w2, violation or None, accepted)"""
    w2 = copy.deepcopy(w)
    v = None
    if ev[0] == "c":
        try:
            if ev[1] == "bind": r = w2.c.bind_simple()
            elif ev[1] == "search": r = w2.c.search_request()
            elif ev[1] == "ext": r = w2.c.extended_request("1.2")
            else: r = w2.c.unbind()
        except LDAPError:
            return None, None, False     # not enabled (premise)
        out = w2.c.data_to_send()
        if ev[1] != "unbind": w2.issued += 1
        w2.c2s += frags(out); w2.qc2s.append((ev[1], r))
    elif ev[0] == "s":
        i = ev[2] if len(ev) > 2 else None
        try:
            if ev[1] == "bind_ok": w2.s.bind_response(i)
            elif ev[1] == "bind_bad": w2.s.bind_response(i, None, LDAPResultCode.INVALID_CREDENTIALS)
            elif ev[1] == "bind_sasl": w2.s.bind_response(i, b"x", LDAPResultCode.SASL_BIND_IN_PROGRESS); w2.sasl += 1
            elif ev[1] == "entry": w2.s.search_result_entry(i, "", [])
            elif ev[1] == "ref": w2.s.search_result_reference(i, ["u"])
            elif ev[1] == "done": w2.s.search_result_done(i)
            elif ev[1] == "extresp": w2.s.extended_response(i)
            elif ev[1] == "notice": w2.s.extended_response(i, NOTICE)
            else: w2.s.unbind()
        except LDAPError:
            return None, None, False
        out = w2.s.data_to_send()
        w2.s2c += frags(out); w2.qs2c.append((ev[1], i))
        if ev[1] in ("entry",): k, a, b = w2.srv_open[i]; w2.srv_open[i] = (k, a + 1, b)
        elif ev[1] in ("ref",): k, a, b = w2.srv_open[i]; w2.srv_open[i] = (k, a, b + 1)
        elif ev[1] in ("unbind", "notice"): w2.srv_open = {}
        else: w2.srv_open.pop(i, None)
    else:
        if ev[1] == "c2s":
            f = w2.c2s.pop(0)
            try:
                msgs = w2.s.receive(f)
                for m in msgs:
                    exp = w2.qc2s.pop(0)
                    kind = {"BindRequest": "bind", "SearchRequest": "search", "ExtendedRequest": "ext"}[type(m).__name__]
                    if (kind, m.message_id) != exp: v = ("recv-mismatch", exp, kind, m.message_id)
                    w2.srv_open[m.message_id] = (kind, 0, 0)
            except ProtocolError as e:
                exp = w2.qc2s.pop(0) if w2.qc2s else None
                if not (exp and exp[0] == "unbind" and isinstance(e.request, UnbindRequest)): v = ("unexpected ProtocolError at server", str(e)[:80])
                w2.c2s = []; w2.qc2s = []; w2.srv_open = {}
        else:
            f = w2.s2c.pop(0)
            try:
                msgs = w2.c.receive(f)
                for m in msgs:
                    exp = w2.qs2c.pop(0)
                    if m.message_id != exp[1]: v = ("recv-mismatch-c", exp, type(m).__name__, m.message_id)
            except ProtocolError as e:
                exp = w2.qs2c.pop(0) if w2.qs2c else None
                if not (exp and exp[0] in ("unbind", "notice")): v = ("unexpected ProtocolError at client", str(e)[:80], exp)
                w2.s2c = []; w2.qs2c = []
    # closed ends drop their inbound pipe
    if w2.s.state == S.CLOSED: w2.c2s = []; w2.qc2s = []; w2.srv_open = {}
    if w2.c.state == S.CLOSED: w2.s2c = []; w2.qs2c = []
    return w2, v, True

def norm(st): return S.OPENED if st == S.BEFORE_OPEN else st
w0 = World(); seen = {w0.key()}; fr = collections.deque([(w0, [])]); trans = 0; quies = 0; viol = collections.Counter(); first = {}
t0 = time.time()
while fr:
    w, h = fr.popleft()
    for ev in enabled(w):
        w2, v, acc = step(w, ev)
        if not acc: continue
        trans += 1
        if v:
            viol[v[0]] += 1; first.setdefault(v[0], (h + [ev], v)); continue
        if not w2.c2s and not w2.s2c and not bytes(w2.c._incoming_buffer) and not bytes(w2.s._incoming_buffer):
            quies += 1
            if norm(w2.c.state) != norm(w2.s.state):
                viol["state-disagree"] += 1; first.setdefault("state-disagree", (h + [ev], (w2.c.state, w2.s.state)))
            for i, sa, ca in probe(w2):
                if sa != ca:
                    viol["inprog-disagree"] += 1; first.setdefault("inprog-disagree", (h + [ev], (i, sa, ca))); break
        k = w2.key()
        if k not in seen:
            seen.add(k); fr.append((w2, h + [ev]))
print("K", K, "cuts", CUTS, "states", len(seen), "transitions", trans, "quiescent", quies, f"{time.time()-t0:.1f}s")
for k, c in viol.items(): print("  ", k, c, first[k])
