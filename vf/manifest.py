"""Generates /verif/MANIFEST.json from the table below:  python -m vf.manifest"""
from __future__ import annotations

import json
import os

ROOT = os.path.dirname(os.path.dirname(os.path.abspath(__file__)))
PY = "/venv/bin/python"

CHECKS = {
    "C01": dict(
        technique="bounded-exhaustive enumeration of the message universe (full(2)+dev(d)) through the real pack/unpack",
        text="Every message of the bounded universe U (all 9 kinds; every field ranging over a boundary-value domain; up to d "
        "fields deviating from the default at once, d=2 quick / 3 thorough, plus the full product over the two simplest "
        "values) is packed, decoded with three different suffixes, compared field by field and re-packed. Exhaustive within "
        "U; values outside U are covered only through the representative taking the same branches.",
        note="Trusts CPython and the harness' own field comparison; utf-8 session encoding; generic controls never carry a library-known OID.",
        ref="C01",
    ),
    "C03": dict(
        technique="bounded-exhaustive enumeration of U, library encoder vs an independent strict RFC 4511 decoder (reference model)",
        text="Every message of U is packed by the library and decoded by vf/ref/ldap.py, a schema-directed strict decoder written "
        "from RFC 4511 Appendix B that shares no code with sansldap; the abstract values must be equal. The reference is itself "
        "checked to be its own inverse over U's dev(1) slice on every run.",
        note="Trusts the reference's transcription of the RFC 4511 ASN.1 module (type tables in vf/ref/ldap.py).",
        ref="C03",
    ),
    "C07": dict(
        technique="bounded-exhaustive enumeration of primitive values / content octets against Python integer arithmetic",
        text="All integers in [-2^17,2^17] (2^24 thorough) and +-2^k(+-1) for k<=4096 written and read back; every INTEGER content "
        "string of <=2 (3) octets and every string of <=6 (8) octets over {00,01,7f,80,fe,ff}; every tag number 0..16384 plus "
        "multi-octet boundaries x 3 classes x P/C; every length 0..1100 (70000) plus 2^24-1, 2^24; all boolean octets; all octet "
        "strings of <=2 octets; every SEQUENCE/SET nesting of depth<=2 (3), fan-out<=2 over 4 leaf types.",
        note="Oracle = int.to_bytes/from_bytes and base-128/base-256 arithmetic in vf/ref/ber.py.",
        ref="C07",
    ),
}

NOT_YET = {}


def main() -> None:
    props = [json.loads(line) for line in open(os.path.join(ROOT, "properties.jsonl"))]
    checks = []
    na = []
    for p in props:
        pid = p["id"]
        if pid in CHECKS:
            c = CHECKS[pid]
            checks.append(
                {
                    "property_id": pid,
                    "quick_cmd": f"cd /verif && {PY} -m vf.run {pid} --tier quick",
                    "thorough_cmd": f"cd /verif && {PY} -m vf.run {pid} --tier thorough",
                    "evidence_file": f"/verif/evidence/{pid}.json",
                    "replay_cmd_template": f"cd /verif && {PY} -m vf.run {pid} --replay {{path}}",
                    "engine": c.get("engine", "vf"),
                    "level_claimed": {"category": "model_checking", "text": c["text"], "design_ref": f"DESIGN.md section 3, {c['ref']}"},
                    "level_note": c["note"],
                    "technique": c["technique"],
                }
            )
        else:
            na.append({"property_id": pid, "reason": NOT_YET.get(pid, "check not built yet in this round (planned, see DESIGN.md section 3); not claimed until it runs")})
    man = {
        "version": 1,
        "setup_cmd": f"cd /verif && {PY} -m vf.selftest",
        "hooks": {
            "guard": "SANSLDAP_VERIF",
            "enable": "no source hooks are needed: every observation point is public API; checks set SANSLDAP_VERIF=1 and put /repo/src first on sys.path",
            "baseline_off_cmd": "cd /repo && /venv/bin/python -m pytest -ra -q -p no:cacheprovider --timeout=900 --continue-on-collection-errors",
            "source_commits": [],
            "add_only": True,
        },
        "engines": [
            {"name": "vf", "path": "/verif/vf", "serves_properties": sorted(CHECKS), "kind_free_text": "hand-written explicit-state / bounded-exhaustive explorers over the real Python objects, plus independent reference models (vf/ref)"},
        ],
        "checks": checks,
        "not_applicable": na,
        "notes": "All checks are pure Python run under /venv/bin/python against /repo/src (the working tree). Exit 2 = harness failure.",
    }
    with open(os.path.join(ROOT, "MANIFEST.json"), "w") as fh:
        json.dump(man, fh, indent=1)
    print(f"MANIFEST.json: {len(checks)} checks, {len(na)} not claimed")


if __name__ == "__main__":
    main()
