"""Generates /verif/MANIFEST.json from the table below:  python -m vf.manifest"""
from __future__ import annotations

import json
import os

ROOT = os.path.dirname(os.path.dirname(os.path.abspath(__file__)))
PY = "/venv/bin/python"

CHECKS = {
    "C01": dict(
        technique="bounded-exhaustive enumeration of the message universe (full(2)+dev(d)) through the real pack/unpack",
        text="Every message of the bounded universe U (all 9 kinds; every field ranging over a boundary-value domain; up to d "
        "fields deviating from the default at once, d=2 quick / 3 thorough, plus the full product over the two simplest "
        "values) is packed, decoded with several suffixes, compared field by field and re-packed. Exhaustive within "
        "U; values outside U are covered only through the representative taking the same branches.",
        note="Trusts CPython and the harness' own field comparison; utf-8 session encoding; generic controls never carry a library-known OID.",
    ),
    "C02": dict(
        technique="explicit-state search with state merging: columns = bytes delivered, every chunk s[k:j] from every column on the real session",
        text="For each stream (1-3 messages, both roles, on/off PDU boundaries, long-form lengths) every chunk s[k:j] for all k<=j, in "
        "three container flavours (bytes, reused bytearray, memoryview), is delivered to a copy of column k's real session; each edge must "
        "reproduce column j's cumulative messages and its state (structurally equal, or - if the representation differs - indistinguishable in visible attributes, pending output and "
        "on a fixed set of continuations of the stream). With structurally equal states this covers all 2^(n-1) partitions by induction. Also: every <=3-chunk partition with a second live "
        "session receiving in between; streams ending in a terminator (unbind / notice); values of 300 KB, 1.2 MB (17 MB thorough).",
        note="Streams are a finite catalogue drawn from U (44 quick / ~300 thorough); well-formed streams only (terminators are C05/C08).",
    ),
    "C03": dict(
        technique="bounded-exhaustive enumeration of U, library encoder vs an independent strict RFC 4511 decoder (reference model)",
        text="Every message of U is packed by the library and decoded by vf/ref/ldap.py, a schema-directed strict decoder written "
        "from RFC 4511 Appendix B that shares no code with sansldap; the abstract values must be equal. The reference is itself "
        "checked to be its own inverse over U's dev(1) slice on every run. Also: the RFC's named numbers; messages obtained from the decoder (known controls exposing received octets); "
        "pack / change a list inside the message / pack again for every list of every base message.",
        note="Trusts the reference's transcription of the RFC 4511 ASN.1 module (type tables in vf/ref/ldap.py).",
    ),
    "C04": dict(
        technique="exhaustive enumeration of BER encoding freedoms (length forms, TRUE octets, explicit defaults, trailing elements) per TLV node of reference-encoded messages",
        text="Every base message (full(2)+dev(1) of U) is encoded by the independent reference encoder; every single encoding freedom on "
        "every node, every pair (rich/default messages with <=25 nodes; all at thorough), uniform assignments, and the full on/off product "
        "for small messages are rendered and decoded by the library (also through receive); the value must equal the original.",
        note="RFC 4511 section 4 extensibility: trailing unrecognised components allowed on every LDAP SEQUENCE; octet strings primitive, lengths definite.",
    ),
    "C05": dict(
        technique="exhaustive fault-sequence enumeration (all short byte strings, all single-byte and single-TLV-node mutations, all nesting depths) x chunkings x prior states on the real sessions",
        text="All byte strings <=2 (3) over 256 values and <=5 (6) over 18 structural bytes; every single-byte replacement and truncation of 16 "
        "rich base messages; every mutation from an 20-entry TLV fault menu on every node (pairs at thorough); filter nesting at every depth "
        "to 700 and stepped to 3000; delivered whole / byte-wise / every 2-split, from fresh, BINDING and OPENED-with-outstanding states. "
        "Oracle: list or ProtocolError only; then CLOSED, input and sends refused, e.response strictly decodes as notice/unbind.",
        note="Three representative prior states per role; interpreter recursion limit at its default.",
    ),
    "C06": dict(
        technique="exhaustive enumeration of interior TLV-node mutations inside complete envelopes x chunkings, against an independent outer framer",
        text="Every interior node mutation (fault menu) of every base message, with the outer length kept satisfied, followed by a valid PDU; "
        "delivered whole, byte-wise and at every 2-split. After each receive that returns, messages returned so far must equal the complete "
        "units counted by an independent framer; otherwise ProtocolError.",
        note="The framer reads only the outer identifier and definite length (vf/ref/ber.py).",
    ),
    "C07": dict(
        technique="bounded-exhaustive enumeration of primitive values / content octets against Python integer arithmetic",
        text="All integers in [-2^17,2^17] (2^24 thorough) and +-2^k(+-1) for k<=4096 written and read back; every INTEGER content "
        "string of <=2 (3) octets and every string of <=6 (8) octets over {00,01,7f,80,fe,ff}; every tag number 0..16384 plus "
        "multi-octet boundaries x 3 classes x P/C; every length 0..1100 (70000) plus 2^24-1, 2^24; all boolean octets; all octet "
        "strings of <=2 octets; every SEQUENCE/SET nesting of depth<=2 (3), fan-out<=2 over 4 leaf types.",
        note="Oracle = int.to_bytes/from_bytes and base-128/base-256 arithmetic in vf/ref/ber.py.",
    ),
    "C08": dict(
        technique="explicit-state BFS to a fixpoint over the real LDAPClient / LDAPServer with transition monitors (ghost variables); plus a TLA+ model of the life cycle checked by TLC and bound to the code by exhaustive product exploration of its dumped state graph with the real objects",
        text="All reachable states of one session for <=K requests (client K=3/4, server ids 0..2/3) under the full alphabet of calls and "
        "deliveries (every message kind x every candidate id, plus garbage); lifecycle clauses (a)-(h) of DESIGN C08 are evaluated on every edge. "
        "Every newly found state is re-derived by replaying its history on a fresh object (conformance). Independently, tla/Lifecycle.tla states the documented "
        "machine; TLC checks 17 action properties on all its states (ids 0..2 / 0..3); every edge of its state graph is then replayed against the real object in every "
        "reachable product state (whole, split and long-form deliveries): acceptance, error class, state, emitted message and id must agree, and every model edge must be reached.",
        note="Whole-PDU deliveries; outgoing buffer drained after each event; violating edges are not expanded unless a listed known finding.",
    ),
    "C09": dict(
        technique="explicit-state BFS to a fixpoint over the real LDAPClient with id/correlation monitors; plus the TLC-checked TLA+ life-cycle model bound to the code by exhaustive product exploration",
        text="Same client search as C08; on every edge: ids returned are positive, strictly increasing and equal to the id in the emitted bytes "
        "(reference decoder); a response is accepted iff the ghost says its id is in progress (unknown where the property is silent); rejected "
        "responses and all request-type messages raise ProtocolError and close.",
        note="Candidate ids 0..K+1 for every response kind.",
    ),
    "C10": dict(
        technique="explicit-state BFS to a fixpoint over both real sessions with wire-effect monitors; plus the TLC-checked TLA+ life-cycle model bound to the code by exhaustive product exploration",
        text="Same searches as C08; on every edge: a refused call leaves the drained outgoing stream empty and raises only LDAPError; an accepted "
        "server response implies its id is outstanding in the ghost, carries that id on the wire, and a final response retires it.",
        note="Kind-mismatched responses may be accepted or cleanly refused (the property does not say which).",
    ),
    "C11": dict(
        technique="joint explicit-state BFS to a fixpoint over (real client, real server, two fragmenting pipes, ghost queues)",
        text="All interleavings of accepted client calls, matching server responses and fragment deliveries for <=K requests (K=2 quick: ~8e3 "
        "states; K=3 thorough: ~1e6); every received message equals the head of the ghost queue; only designed terminations raise; at every "
        "quiescent state both ends agree on state and on which ids are in progress (observational probes on clones).",
        note="Fragments at PDU boundaries and two inner offsets (C02 proves other cuts equivalent); delivery to a CLOSED end disabled; 128-bit state digests.",
    ),
    "C12": dict(
        technique="explicit-state BFS over a real session with the outgoing buffer kept in the state; drain amounts as events",
        text="Send calls (accepted and refused) and data_to_send(a) for a in {None,0,1,2,pending-1,pending,pending+1,10^6} up to 2 (3) sends; "
        "invariant on every edge: pending bytes == concatenation of accepted sends minus bytes drained; the session stays indistinguishable (acceptance of every send, visible state, "
        "encoding) from a twin that received the same sends and was drained completely after each; the encoding of each accepted call equals an independent reference encoding.",
        note="Negative amounts are outside the property's domain.",
    ),
    "C13": dict(
        technique="bounded-exhaustive enumeration of filter objects; str() -> library parser and strict RFC 4515 reference recogniser",
        text="7 valued leaf kinds x every value of <=2 octets (all 256 values) and every value of <=4 (5) symbols over the 22 octets any branch "
        "looks at; all substring patterns over those components; all extensible forms; every tree of depth <=2 over 12 leaves (+depth 3). "
        "from_string(str(f)) == f, str(f) is strict RFC 4515 and denotes abs(f) under the reference parser.",
        note="Excludes what RFC 4515 text cannot express (empty substring components, extensible with neither rule nor attribute, rule named 'dn').",
    ),
    "C14": dict(
        technique="bounded-exhaustive enumeration of RFC 4515 grammar derivations x tolerated-space assignments against an independent reference parser",
        text="All derivations with depth<=3, list length<=3, values of <=2 (3) tokens from 12 value tokens, 4 attribute forms, every extensible "
        "form, x all assignments of the tolerated space slots with <=2 (3) non-empty; library parse == reference parse, and the encoded "
        "SearchRequest strict-decodes to the same tree.",
        note="Left out: zero-length substring components and a matching rule spelled 'dn' (ambiguous in the ABNF).",
    ),
    "C15": dict(
        technique="exhaustive enumeration of all strings up to a length bound over a 21-symbol alphabet, all single edits of a sentence corpus, all nesting depths",
        text="Every string of length <=5 (6); every single-symbol insert/delete/replace of ~240 grammar sentences (double edits at thorough); "
        "nesting 1..5000; lone surrogates. Returns a filter or raises FilterSyntaxError with a span inside the input; accepted attributes / rules "
        "are RFC 4512-valid; the result's own text parses back to it.",
        note="Offsets are read against the UTF-8 view of the stripped input.",
    ),
    "C16": dict(
        technique="bounded-exhaustive enumeration (full(2)+dev(d)) of the three description classes through str()/from_string",
        text="Every field over its domain with <=2 (3) deviating at once; description and extension text over every string of <=2 characters "
        "from the 16 characters any branch of writer or reader inspects, plus long and non-BMP text.",
        note="Fields RFC 4512-valid; syntax length only with a syntax.",
    ),
    "C17": dict(
        technique="bounded-exhaustive enumeration of RFC 4512 grammar derivations x spacing assignments against an independent reference parser; token-sequence totality",
        text="Every clause absent/present (<=2 (3) deviating), lists single or parenthesised with 0-3 items, every SP/WSP slot at minimum or widened, "
        "14 dstring contents, 0-3 extensions, the AD quoted SYNTAX; every field must equal the reference parser's. Totality: all sequences of "
        "<=4 (5) tokens over a 24-token alphabet in 4 contexts and all single-token edits of a sentence corpus raise only ValueError.",
        note="Extension names compared without the X- prefix; no repeated extension names.",
    ),
    "C18": dict(
        technique="model checking of regex automata: sre parse tree -> epsilon-NFA, exhaustive product-automaton SCC search for exponential ambiguity, model replayed against re; instruction-count pumped families for hand-written loops",
        text="Every pattern the library hands to re (captured automatically) is analysed for inputs of unbounded length; the model is bound to "
        "the engine by replaying every viable word up to 4-7 symbols; a reported ambiguity is a violation only if the pumped family blows up on the "
        "real engine. Hand-written scanners: every family u v^k w (|v|<=2) and two-pump / nesting family is measured in bytecode instructions "
        "at k=8..64; cost(2k) <= 8 cost(k)+c.",
        note="C-level cost outside regexes is not measured; only exponential (not polynomial) ambiguity is reported; unsupported regex features decide nothing.",
    ),
    "C19": dict(
        technique="stateless exhaustive exploration: every interleaving of every pair of bounded histories on two fresh real sessions, against per-history transcripts from pristine processes",
        text="Histories of length <=2 over 17-18 operations per role (length 3 within focus groups at thorough), role pairs c/c, c/s, s/s, all merge "
        "orders; each transcript must equal the one obtained alone in a freshly forked process. Plus all 8x8 registration subsets x 3 custom types "
        "(decoded as custom iff registered, generic/refused otherwise, third session unaffected, duplicates and built-in collisions refused).",
        note="The two sessions are unconnected; only hidden sharing inside the library can couple them.",
    ),
}

NOT_YET = {}


def main() -> None:
    props = [json.loads(line) for line in open(os.path.join(ROOT, "properties.jsonl"))]
    checks = []
    na = []
    for p in props:
        pid = p["id"]
        if pid in CHECKS:
            c = CHECKS[pid]
            checks.append(
                {
                    "property_id": pid,
                    "quick_cmd": f"cd /verif && {PY} -m vf.run {pid} --tier quick",
                    "thorough_cmd": f"cd /verif && {PY} -m vf.run {pid} --tier thorough",
                    "evidence_file": f"/verif/evidence/{pid}.json",
                    "replay_cmd_template": f"cd /verif && {PY} -m vf.run {pid} --replay {{path}}",
                    "engine": c.get("engine", "vf"),
                    "level_claimed": {"category": "model_checking", "text": c["text"], "design_ref": f"DESIGN.md section 3, {pid}"},
                    "level_note": c["note"],
                    "technique": c["technique"],
                }
            )
        else:
            na.append({"property_id": pid, "reason": NOT_YET.get(pid, "check not built yet in this round (planned, see DESIGN.md section 3); not claimed until it runs")})
    man = {
        "version": 1,
        "setup_cmd": f"cd /verif && {PY} -m vf.selftest",
        "hooks": {
            "guard": "SANSLDAP_VERIF",
            "enable": "no source hooks are needed: every observation point is public API; checks set SANSLDAP_VERIF=1 and put /repo/src first on sys.path",
            "baseline_off_cmd": "cd /repo && /venv/bin/python -m pytest -ra -q -p no:cacheprovider --timeout=900 --continue-on-collection-errors",
            "source_commits": [],
            "add_only": True,
        },
        "engines": [
            {"name": "vf", "path": "/verif/vf", "serves_properties": sorted(CHECKS), "kind_free_text": "hand-written explicit-state / bounded-exhaustive explorers over the real Python objects, plus independent reference models (vf/ref)"},
        ],
        "checks": checks,
        "not_applicable": na,
        "notes": "All checks are pure Python run under /venv/bin/python against /repo/src (the working tree). Exit 2 = harness failure.",
    }
    with open(os.path.join(ROOT, "MANIFEST.json"), "w") as fh:
        json.dump(man, fh, indent=1)
    print(f"MANIFEST.json: {len(checks)} checks, {len(na)} not claimed")


if __name__ == "__main__":
    main()
