"""The shared message universe U (DESIGN 2.1): typed value domains ordered simplest-first and,
per message kind, full(2) + dev(d) enumeration ("bound deviations, not depth").

A kind is a list of flattened fields, each with a full domain ``dom`` (used when the field is
the only deviation) and a crossing domain ``xdom`` (used when it deviates together with other
fields; equal to ``dom`` except for the two big structured domains, filter and controls).
Enumeration is by *job*: (kind, tuple of deviating field indices) -- jobs are what the workers
partition, so coverage does not depend on the seed.
"""
from __future__ import annotations

import itertools
import typing as t

import sansldap as L

INT = [0, 1, 2, 127, 128, 255, 256, 32767, 32768, 65535, 65536, 2**24 - 1, 2**24, 2**31 - 2, 2**31 - 1, 2**31, 2**32 - 1,
       2**32, 2**63 - 1, 2**63, 2**64, -1, -127, -128, -129, -255, -256, -257, -32768, -32769, -65536, -65537, -(2**24),
       -(2**31), -(2**31) - 1, -(2**63), -(2**64)]  # fmt: skip
STR = ["", "a", "dc=x", "é", "☺", "\U0001F600", "\x00", "a" * 127, "a" * 128, "a" * 255, "a" * 256,
       # content a normalising / canonicalising decoder would alter: percent-escapes, case, surrounding and inner
       # whitespace, control characters, a backslash escape, a NUL in the middle, a BOM, a combining sequence
       "z" * 300, "\u00e9" * 200, "1.3.6.1.4.1.1466.20037", "1.2.840.113556.1.4.319", "ldap://h/ou=Sales%20Team??sub?(cn=100%25)", "%41%zz%", "MiXeD CaSe", "  lead and trail  ", "\t\r\n", "a\\2ab\\\\", "a\x00b", "\ufeffx", "e\u0301"]
BYTES = [b"", b"\x00", b"a", b"\xff", b"\x80\x00", bytes(range(256)), b"x" * 127, b"x" * 128, b"x" * 255, b"x" * 256, b"\x00" * 300, b"*" * 40]
STR_BIG = ["a" * 65535, "a" * 65536]
BYTES_BIG = [b"x" * 65535, b"x" * 65536]
BOOL = [False, True]
SCOPE = list(L.SearchScope)
DEREF = list(L.DereferencingPolicy)
_NAMED_CODES = sorted({int(c) for c in L.LDAPResultCode.__members__.values()})
RESULTCODE_VALUES = _NAMED_CODES + [9, 15, 22, 81, 127, 128, 255, 256, 32767, 32768, 65535, 4096, 2**31 - 1, -1, -129]


def OPT(d: t.List[t.Any]) -> t.List[t.Any]:
    return [None] + list(d)


def LIST(d: t.List[t.Any]) -> t.List[t.Any]:
    out: t.List[t.Any] = [[]]
    if d:
        out.append([d[0]])
    if len(d) > 1:
        out.append([d[0], d[1]])
        out.append([d[1], d[0], d[0]])
        out += [[x] for x in d[1:]]
        # beyond "a few": every domain value in one list, and a long run of repeats
        out.append(list(d))
        out.append([d[1]] * 25 + [d[0]] * 2)
    return out


def result_codes() -> t.List[t.Any]:
    return [L.LDAPResultCode(v) for v in RESULTCODE_VALUES]


def controls_domain(big: bool = False) -> t.Tuple[t.List[t.Any], t.List[t.Any]]:
    C: t.List[t.Any] = []
    for oid in ("1.2", "1.2.3.4.5"):
        for crit in BOOL:
            for v in OPT(BYTES + (BYTES_BIG if big else [])):
                C.append(L.LDAPControl(oid, crit, v))
    for crit in BOOL:
        C.append(L.ShowDeletedControl(crit))
        C.append(L.ShowDeactivatedLinkControl(crit))
    for crit in BOOL:
        for n in INT:
            C.append(L.PagedResultControl(crit, n, b""))
        for ck in BYTES[1:]:
            C.append(L.PagedResultControl(crit, 0, ck))
    dom = LIST(C)[:-2] + [[C[0], L.ShowDeletedControl(True), L.PagedResultControl(False, 1000, b"ck")]]
    # many controls on one message: 20 mixed ones, and the same control 20 times
    many = [C[i * 7 % len(C)] for i in range(20)]
    dom += [many, [L.PagedResultControl(True, 7, b"c")] * 20]
    x = [C[0], C[1], L.LDAPControl("1.2", True, b"\xff" * 128), L.ShowDeletedControl(True), L.ShowDeactivatedLinkControl(False),
         L.PagedResultControl(True, 128, b"c"), L.PagedResultControl(False, -129, bytes(range(256)))]  # fmt: skip
    xdom = [[]] + [[c] for c in x] + [[x[0], x[5]], [x[3], x[2], x[2]]]
    return dom, xdom


ATTRS = ["cn", "2.5.4.3", "cn;lang-en"]


def filter_leaves(full: bool) -> t.List[t.Any]:
    out: t.List[t.Any] = []
    vals = BYTES if full else [b"", b"a", b"\xff", b"x" * 128]
    attrs = ATTRS if full else ["cn"]
    for cls in (L.FilterEquality, L.FilterGreaterOrEqual, L.FilterLessOrEqual, L.FilterApproxMatch):
        for a in attrs:
            for v in vals:
                out.append(cls(a, v))
    for a in ATTRS:
        out.append(L.FilterPresent(a))
    comp = [b"x", b"", b"\xff" * 128] if full else [b"x"]
    for c in comp:
        for ini in (None, c):
            for nany in (0, 1, 2):
                for fin in (None, c):
                    out.append(L.FilterSubstrings("cn", ini, [c, b"y"][:nany], fin))
    for rule in (None, "r", "2.5.13.2"):
        for a in (None, "cn"):
            for dn in BOOL:
                for v in (BYTES[:4] if full else [b"v"]):
                    out.append(L.FilterExtensibleMatch(rule, a, v, dn))
    return out


def _compose(children: t.List[t.Any]) -> t.List[t.Any]:
    out: t.List[t.Any] = []
    for x in children:
        out.append(L.FilterNot(x))
    for cls in (L.FilterAnd, L.FilterOr):
        out.append(cls([]))
        for x in children:
            out.append(cls([x]))
    return out


def filter_domain(depth3: bool = False) -> t.Tuple[t.List[t.Any], t.List[t.Any]]:
    full = filter_leaves(True)
    R = [L.FilterPresent("objectClass"), L.FilterEquality("cn", b"a"), L.FilterSubstrings("cn", b"i", [b"x"], None),
         L.FilterExtensibleMatch("r", None, b"v", True)]  # fmt: skip
    d1 = _compose(full)
    for cls in (L.FilterAnd, L.FilterOr):
        for x, y in itertools.product(R, repeat=2):
            d1.append(cls([x, y]))
        d1.append(cls([R[1], R[0], R[0]]))
    t1 = _compose(R) + [cls([x, y]) for cls in (L.FilterAnd, L.FilterOr) for x in R[:2] for y in R[:2]]
    d2 = _compose(t1)
    for cls in (L.FilterAnd, L.FilterOr):
        for x, y in itertools.product(t1[:10] + R[:2], repeat=2):
            d2.append(cls([x, y]))
    # beyond depth 2-3: a chain nested 12 deep, composites with 25 children, a 10-deep and/or ladder
    chain = R[1]
    for i in range(12):
        chain = L.FilterNot(chain) if i % 3 == 0 else L.FilterAnd([chain]) if i % 3 == 1 else L.FilterOr([chain, R[0]])
    wide = [L.FilterAnd([L.FilterEquality("cn", b"v%d" % i) for i in range(25)]), L.FilterOr([R[2]] * 25),
            L.FilterSubstrings("cn", b"i", [b"a%d" % i for i in range(30)], b"f")]
    dom = [R[0]] + full + d1 + d2 + [chain] + wide
    if depth3:
        t2 = _compose(t1[:8])
        dom += _compose(t2) + [cls([x, y]) for cls in (L.FilterAnd, L.FilterOr) for x in t2[:12] for y in (R[0], t1[0])]
    xdom = [R[0], R[1], L.FilterEquality("cn", b"x" * 128), R[2], L.FilterSubstrings("cn", None, [], None), R[3],
            L.FilterExtensibleMatch(None, "cn", b"", False), L.FilterNot(R[1]), L.FilterAnd([]), L.FilterAnd([R[1], R[0]]),
            L.FilterOr([L.FilterNot(L.FilterAnd([R[2]])), R[3]]), L.FilterApproxMatch("cn;lang-en", b"\x00")]  # fmt: skip
    # dedupe while keeping order
    seen = set()
    ded = []
    for f in dom:
        k = repr(f)
        if k not in seen:
            seen.add(k)
            ded.append(f)
    return ded, xdom


def cred_domain() -> t.List[t.Any]:
    out: t.List[t.Any] = [L.SimpleCredential(s) for s in STR]
    for m in STR[:4]:
        for c in OPT(BYTES)[:5]:
            out.append(L.SaslCredential(m, c))
    for c in BYTES[4:]:
        out.append(L.SaslCredential("GSSAPI", c))
    return out


def partial_attrs() -> t.List[t.Any]:
    out = [L.PartialAttribute("a", [])]
    out += [L.PartialAttribute(n, [b"v"]) for n in STR]
    out += [L.PartialAttribute("a", vs) for vs in LIST(BYTES)[1:]]
    return out


class Field:
    def __init__(self, path: str, dom: t.List[t.Any], xdom: t.Optional[t.List[t.Any]] = None) -> None:
        self.path = path
        self.dom = dom
        self.xdom = xdom if xdom is not None else dom


class Kind:
    def __init__(self, name: str, fields: t.List[Field], build: t.Callable[..., t.Any]) -> None:
        self.name = name
        self.fields = fields
        self.build = build

    def default_values(self) -> t.List[t.Any]:
        return [f.dom[0] for f in self.fields]

    def make(self, vals: t.Sequence[t.Any]) -> t.Any:
        return self.build(dict(zip((f.path for f in self.fields), vals)))


def _res(v: t.Dict[str, t.Any]) -> t.Any:
    return L.LDAPResult(v["result.code"], v["result.matched_dn"], v["result.diag"], v["result.referrals"])


def kinds(big: bool = False, depth3: bool = False) -> t.List[Kind]:
    s = STR + (STR_BIG if big else [])
    b = BYTES + (BYTES_BIG if big else [])
    cdom, cx = controls_domain(big)
    fdom, fx = filter_domain(depth3)
    common = lambda: [Field("message_id", INT), Field("controls", cdom, cx)]  # noqa: E731
    res = lambda: [Field("result.code", result_codes()), Field("result.matched_dn", s), Field("result.diag", s),
                   Field("result.referrals", OPT(LIST(s)))]  # fmt: skip  # noqa: E731
    return [
        Kind("BindRequest", common() + [Field("version", [3] + INT), Field("name", s), Field("authentication", cred_domain())],
             lambda v: L.BindRequest(v["message_id"], v["controls"], v["version"], v["name"], v["authentication"])),
        Kind("BindResponse", common() + res() + [Field("server_sasl_creds", OPT(b))],
             lambda v: L.BindResponse(v["message_id"], v["controls"], _res(v), v["server_sasl_creds"])),
        Kind("UnbindRequest", common(), lambda v: L.UnbindRequest(v["message_id"], v["controls"])),
        Kind("SearchRequest", common() + [Field("base_object", s), Field("scope", SCOPE), Field("deref_aliases", DEREF),
                                          Field("size_limit", INT), Field("time_limit", INT), Field("types_only", BOOL),
                                          Field("filter", fdom, fx),
                                          # attribute selectors RFC 4511 4.5.1.8 gives a meaning to ("1.1", "*", "+"), alone and in company
                                          Field("attributes", LIST(s) + [["1.1"], ["1.1", "cn"], ["cn", "1.1", "*"], ["*", "+"], ["*", "cn", "*"], ["+", "1.1"], ["cn", "CN", "cn"]])],
             lambda v: L.SearchRequest(v["message_id"], v["controls"], v["base_object"], v["scope"], v["deref_aliases"],
                                       v["size_limit"], v["time_limit"], v["types_only"], v["filter"], v["attributes"])),
        Kind("SearchResultEntry", common() + [Field("object_name", s), Field("attributes", LIST(partial_attrs()))],
             lambda v: L.SearchResultEntry(v["message_id"], v["controls"], v["object_name"], v["attributes"])),
        Kind("SearchResultDone", common() + res(), lambda v: L.SearchResultDone(v["message_id"], v["controls"], _res(v))),
        Kind("SearchResultReference", common() + [Field("uris", LIST(s))],
             lambda v: L.SearchResultReference(v["message_id"], v["controls"], v["uris"])),
        Kind("ExtendedRequest", common() + [Field("name", s), Field("value", OPT(b))],
             lambda v: L.ExtendedRequest(v["message_id"], v["controls"], v["name"], v["value"])),
        Kind("ExtendedResponse", common() + res() + [Field("name", OPT(s)), Field("value", OPT(b))],
             lambda v: L.ExtendedResponse(v["message_id"], v["controls"], _res(v), v["name"], v["value"])),
    ]  # fmt: skip


Job = t.Tuple[int, t.Tuple[int, ...], str]  # (kind index, deviating field indices, 'dev' | 'full2')


def jobs(ks: t.List[Kind], d: int) -> t.List[Job]:
    out: t.List[Job] = []
    for ki, k in enumerate(ks):
        out.append((ki, (), "full2"))
        n = len(k.fields)
        for r in range(0, d + 1):
            for idx in itertools.combinations(range(n), r):
                out.append((ki, idx, "dev"))
    return out


def job_size(ks: t.List[Kind], job: Job) -> int:
    ki, idx, mode = job
    k = ks[ki]
    if mode == "full2":
        n = 1
        for f in k.fields:
            n *= min(2, len(f.dom))
        return n
    n = 1
    for i in idx:
        n *= len((k.fields[i].dom if len(idx) == 1 else k.fields[i].xdom)) - 1
    return n


def enumerate_job(ks: t.List[Kind], job: Job) -> t.Iterator[t.Tuple[t.Any, t.Tuple[str, ...]]]:
    """Yield (message, deviating paths) for every message of the job."""
    ki, idx, mode = job
    k = ks[ki]
    if mode == "full2":
        for combo in itertools.product(*[f.dom[:2] for f in k.fields]):
            yield k.make(combo), tuple(f.path for f, v in zip(k.fields, combo) if v is not f.dom[0])
        return
    base = k.default_values()
    doms = [(k.fields[i].dom if len(idx) == 1 else k.fields[i].xdom)[1:] for i in idx]
    paths = tuple(k.fields[i].path for i in idx)
    for combo in itertools.product(*doms):
        vals = list(base)
        for i, v in zip(idx, combo):
            vals[i] = v
        yield k.make(vals), paths


def base_messages(ks: t.List[Kind]) -> t.List[t.Any]:
    """full(2) + dev(1): the base set used by the BER-variant and fault checks."""
    out = []
    for job in jobs(ks, 1):
        for m, _p in enumerate_job(ks, job):
            out.append(m)
    return out


def big_messages() -> t.List[t.Any]:
    """A handful of messages with one field of 65535 / 65536 / 65537 octets (3-octet lengths), cheap enough for the quick tier."""
    out: t.List[t.Any] = []
    res = L.LDAPResult(L.LDAPResultCode.SUCCESS, "", "", None)
    for n in (65535, 65536, 65537, 65536 + 256):
        out.append(L.ExtendedRequest(1, [], "1.2", b"v" * n))
        out.append(L.SearchResultEntry(1, [], "cn=x", [L.PartialAttribute("jpegPhoto", [b"\xff" * n, b"s"])]))
        out.append(L.BindRequest(1, [], 3, "n" * n, L.SimpleCredential("p")))
        out.append(L.SearchRequest(1, [L.LDAPControl("1.2", False, b"c" * n)], "", L.SearchScope.BASE, L.DereferencingPolicy.NEVER, 0, 0, False, L.FilterEquality("cn", b"f" * n), ["a"]))
        out.append(L.ExtendedResponse(1, [], res, None, b"w" * n))
    # content of exactly 65536 octets made of many small elements
    out.append(L.SearchResultReference(1, [], ["u" * 30] * 2048))
    # more elements than the interpreter's recursion limit, in every list-valued position
    n = 1500
    out.append(L.SearchResultEntry(2**31, [], "cn=x", [L.PartialAttribute("a%d" % i, [b"v"]) for i in range(n)]))
    out.append(L.SearchResultEntry(2**63, [], "cn=x", [L.PartialAttribute("member", [b"cn=%d" % i for i in range(n)])]))
    out.append(L.SearchResultDone(1, [L.LDAPControl("1.2.%d" % i, bool(i % 2), b"v") for i in range(n)], L.LDAPResult(L.LDAPResultCode(2**31), "", "", ["ldap://h%d" % i for i in range(n)])))
    out.append(L.SearchRequest(1, [], "", L.SearchScope.SUBTREE, L.DereferencingPolicy.ALWAYS, 2**31 - 1, 2**31, True,
                               L.FilterAnd([L.FilterOr([L.FilterEquality("uid", b"u%d" % i) for i in range(n)]), L.FilterSubstrings("cn", b"i", [b"%d" % i for i in range(n)], b"f")]),
                               ["attr%d" % i for i in range(n)]))
    return out


def _unused() -> t.List[t.Any]:
    out: t.List[t.Any] = []
    return out
