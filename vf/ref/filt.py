"""RFC 4515 string filters: independent recursive-descent parser, strict recogniser and printer;
RFC 4512 attribute-description / oid validators.  Never imports sansldap.

Abstract filter values have exactly the shape vf.ref.ldap.Filter decodes to, e.g.
    ("and", [("equalityMatch", {"attributeDesc": b"cn", "assertionValue": b"x"}), ("present", b"o")])
so text -> tree (this module), object -> tree (vf.abs.absfilter) and bytes -> tree (vf.ref.ldap)
can all be compared with ``==``.

Space slots: RFC 4515 has none.  With ``spaces=True`` the slots the library documents as
tolerated are skipped: around the whole filter, after any '(', between an operator and its
sub-filters, between sub-filters and before the ')' that closes a complex filter.  A space
inside an item is data (it belongs to the attribute value).
"""
from __future__ import annotations

import re
import typing as t


class Bad(Exception):
    pass


_KEYSTRING = r"[A-Za-z][A-Za-z0-9-]*"
_NUMBER = r"(?:0|[1-9][0-9]*)"
_NUMERICOID = rf"{_NUMBER}(?:\.{_NUMBER})+"
_OID_RE = re.compile(rf"(?:{_KEYSTRING}|{_NUMERICOID})\Z")
_OPT_RE = re.compile(r"[A-Za-z0-9-]+\Z")
_HEX = set(b"0123456789abcdefABCDEF")


def is_oid(s: str) -> bool:
    return _OID_RE.match(s) is not None


def is_attr(s: str) -> bool:
    parts = s.split(";")
    return is_oid(parts[0]) and all(_OPT_RE.match(o) is not None for o in parts[1:])


def _sp(b: bytes, i: int, spaces: bool) -> int:
    if spaces:
        while i < len(b) and b[i] == 0x20:
            i += 1
    return i


def value(v: bytes) -> bytes:
    """valueencoding = 0*(normal / escaped)"""
    out = bytearray()
    i = 0
    n = len(v)
    while i < n:
        c = v[i]
        if c == 0x5C:
            h = v[i + 1 : i + 3]
            if len(h) != 2 or h[0] not in _HEX or h[1] not in _HEX:
                raise Bad("escape needs two hex digits")
            out.append(int(h, 16))
            i += 3
        elif c in (0x00, 0x28, 0x29, 0x2A):
            raise Bad(f"octet {c:#04x} must be escaped")
        else:
            out.append(c)
            i += 1
    try:
        # normal = UTF1SUBSET / UTFMB: the unescaped part must be UTF-8 (escapes may denote any octet)
        bytes(x for x in _strip_escapes(v)).decode("utf-8")
    except UnicodeDecodeError:
        raise Bad("unescaped octets are not UTF-8") from None
    return bytes(out)


def _strip_escapes(v: bytes) -> bytes:
    return re.sub(rb"\\[0-9A-Fa-f]{2}", b"", v)


def _item(it: bytes) -> t.Any:
    e = it.find(b"=")
    if e < 0:
        raise Bad("item without '='")
    left, right = it[:e], it[e + 1 :]
    try:
        lefts = left.decode("utf-8")
    except UnicodeDecodeError:
        raise Bad("attribute is not UTF-8") from None
    if lefts.endswith(":"):
        parts = lefts[:-1].split(":")
        attr: t.Optional[str] = parts.pop(0) or None
        dn = False
        rule: t.Optional[str] = None
        if attr is not None and not is_attr(attr):
            raise Bad("invalid attribute description")
        if parts and parts[0].lower() == "dn":  # ABNF literals are case-insensitive (RFC 5234); cf. "(:DN:2.4.6.8.10:=Dino)"
            dn = True
            parts.pop(0)
        if parts:
            rule = parts.pop(0)
        if parts:
            raise Bad("too many ':' parts in extensible match")
        if rule is not None and not is_oid(rule):
            raise Bad("invalid matching rule")
        if attr is None and rule is None:
            raise Bad("extensible match needs an attribute or a matching rule")
        return (
            "extensibleMatch",
            {
                "matchingRule": None if rule is None else rule.encode(),
                "type": None if attr is None else attr.encode(),
                "matchValue": value(right),
                "dnAttributes": dn,
            },
        )
    for suf, kind in (("~", "approxMatch"), (">", "greaterOrEqual"), ("<", "lessOrEqual")):
        if lefts.endswith(suf):
            a = lefts[:-1]
            if not is_attr(a):
                raise Bad("invalid attribute description")
            return (kind, {"attributeDesc": a.encode(), "assertionValue": value(right)})
    if not is_attr(lefts):
        raise Bad("invalid attribute description")
    a_b = lefts.encode()
    if right == b"*":
        return ("present", a_b)
    if b"*" in right:
        ps = right.split(b"*")
        subs: t.List[t.Tuple[str, bytes]] = []
        if ps[0]:
            subs.append(("initial", value(ps[0])))
        for x in ps[1:-1]:
            if not x:
                raise Bad("empty 'any' component")
            subs.append(("any", value(x)))
        if ps[-1]:
            subs.append(("final", value(ps[-1])))
        return ("substrings", {"type": a_b, "substrings": subs})
    return ("equalityMatch", {"attributeDesc": a_b, "assertionValue": value(right)})


def _filter(b: bytes, i: int, spaces: bool, depth: int = 0) -> t.Tuple[t.Any, int]:
    # iterative-friendly: recursion depth equals nesting depth; callers bound it
    i = _sp(b, i, spaces)
    if i >= len(b) or b[i] != 0x28:
        raise Bad("expected '('")
    i += 1
    i = _sp(b, i, spaces)
    if i >= len(b):
        raise Bad("unexpected end")
    c = b[i]
    if c in (0x26, 0x7C):
        i += 1
        subs = []
        while True:
            i = _sp(b, i, spaces)
            if i < len(b) and b[i] == 0x28:
                f, i = _filter(b, i, spaces, depth + 1)
                subs.append(f)
            else:
                break
        if not subs:
            raise Bad("filterlist = 1*filter")
        node: t.Any = ("and" if c == 0x26 else "or", subs)
    elif c == 0x21:
        i += 1
        i = _sp(b, i, spaces)
        f, i = _filter(b, i, spaces, depth + 1)
        i = _sp(b, i, spaces)
        node = ("not", f)
    else:
        j = b.find(b")", i)
        if j < 0:
            raise Bad("missing ')'")
        node = _item(b[i:j])
        i = j
    if i >= len(b) or b[i] != 0x29:
        raise Bad("expected ')'")
    return node, i + 1


def parse(text: str, spaces: bool = True) -> t.Any:
    try:
        b = text.encode("utf-8")
    except UnicodeEncodeError:
        raise Bad("not encodable") from None
    node, i = _filter(b, 0, spaces)
    i = _sp(b, i, spaces)
    if i != len(b):
        raise Bad("trailing characters")
    return node


def strict_ok(text: str) -> t.Any:
    """Parse under the RFC 4515 grammar proper (no tolerated spaces)."""
    return parse(text, spaces=False)


_MUST_ESCAPE = {0x00, 0x28, 0x29, 0x2A, 0x5C}


def _val_text(v: bytes) -> str:
    out = []
    for c in v:
        if c in _MUST_ESCAPE or c >= 0x80:
            out.append(f"\\{c:02x}")
        else:
            out.append(chr(c))
    return "".join(out)


def to_text(node: t.Any) -> str:
    k, v = node
    if k in ("and", "or"):
        return "(" + ("&" if k == "and" else "|") + "".join(to_text(x) for x in v) + ")"
    if k == "not":
        return "(!" + to_text(v) + ")"
    if k == "present":
        return f"({v.decode()}=*)"
    if k in ("equalityMatch", "approxMatch", "greaterOrEqual", "lessOrEqual"):
        op = {"equalityMatch": "=", "approxMatch": "~=", "greaterOrEqual": ">=", "lessOrEqual": "<="}[k]
        return f"({v['attributeDesc'].decode()}{op}{_val_text(v['assertionValue'])})"
    if k == "substrings":
        ini = ""
        fin = ""
        mids = []
        for kind, x in v["substrings"]:
            if kind == "initial":
                ini = _val_text(x)
            elif kind == "final":
                fin = _val_text(x)
            else:
                mids.append(_val_text(x))
        return f"({v['type'].decode()}=" + "*".join([ini] + mids + [fin]) + ")"
    if k == "extensibleMatch":
        s = (v["type"] or b"").decode()
        if v["dnAttributes"]:
            s += ":dn"
        if v["matchingRule"] is not None:
            s += ":" + v["matchingRule"].decode()
        return f"({s}:={_val_text(v['matchValue'])})"
    raise Bad(k)


RFC4515_EXAMPLES = [
    r"(cn=Babs Jensen)",
    r"(!(cn=Tim Howes))",
    r"(&(objectClass=Person)(|(sn=Jensen)(cn=Babs J*)))",
    r"(o=univ*of*mich*)",
    r"(seeAlso=)",
    r"(cn:caseExactMatch:=Fred Flintstone)",
    r"(cn:=Betty Rubble)",
    r"(sn:dn:2.4.6.8.10:=Barney Rubble)",
    r"(o:dn:=Ace Industry)",
    r"(:1.2.3:=Wilma Flintstone)",
    r"(:DN:2.4.6.8.10:=Dino)",
    r"(o=Parens R Us \28for all your parenthetical needs\29)",
    r"(cn=*\2A*)",
    r"(filename=C:\5cMyFile)",
    r"(bin=\00\00\00\04)",
    r"(sn=Lu\c4\8di\c4\87)",
    r"(1.3.6.1.4.1.1466.0=\04\02\48\69)",
]


def selftest() -> int:
    n = 0
    for ex in RFC4515_EXAMPLES:
        tree = strict_ok(ex)
        assert parse(to_text(tree), spaces=False) == tree, ex
        n += 1
    assert strict_ok(r"(cn=*\2A*)") == ("substrings", {"type": b"cn", "substrings": [("any", b"*")]})
    assert strict_ok(r"(:DN:2.4.6.8.10:=Dino)")[1]["dnAttributes"] is True
    assert strict_ok(r"(sn=Lu\c4\8di\c4\87)")[1]["assertionValue"] == "Lučić".encode()
    for bad in ["", "(", "()", "(cn)", "(cn=a", "cn=a", "(cn=a))", "( cn=a)", "(cn=a(b)", "(cn=\\zz)", "(cn=\\4)", "(&)", "(!(a=b)(c=d))", "(1=a)", "(cn;=a)", "(:=a)", "(:dn:=a)", "(a**b=c)", "(cn=a**b)", "(cn:a:b:c:=v)", "(cn=\x00)"]:
        try:
            strict_ok(bad)
        except Bad:
            n += 1
        else:
            raise AssertionError(f"strict recogniser accepted {bad!r}")
    assert parse("  ( & ( cn=a ) (!  (o=b)  ) )  ") == ("and", [("equalityMatch", {"attributeDesc": b"cn", "assertionValue": b"a "}), ("not", ("equalityMatch", {"attributeDesc": b"o", "assertionValue": b"b"}))])
    assert is_attr("cn;lang-en;x-1") and is_attr("2.5.4.3") and not is_attr("2") and not is_attr("cn;") and not is_attr("cn\n") and not is_attr("1.02")
    return n
