"""TLV-level fault menu (C05 family 3, C06): every mutation of every node of a parsed message.

``mutants(tree)`` yields (label, node index, bytes).  The outer lengths of all ancestors are
recomputed from the mutated content unless the mutation itself is about a length, so every
mutant is a *complete envelope with a damaged interior* unless it damages node 0 (the envelope).
"""
from __future__ import annotations

import typing as t

from . import ber
from .ber import Node

MENU = [
    "len+1", "len-1", "len=0", "len-indefinite", "len-84-ffffffff", "len-126-octets", "len-81-form", "len-84-form", "len-85-form", "len-88-form",
    "class+1", "class-1", "tag=31", "tag=37", "tag=128", "tag=16384", "tag=31-dangling", "pc-flip", "empty", "truncate-1", "delete", "duplicate", "append-junk",
    "stub-1", "stub-2",
]  # fmt: skip


def _nodes(tree: Node) -> t.List[Node]:
    return list(tree.walk())


def apply(tree: Node, idx: int, label: str) -> t.Optional[bytes]:
    """Return the encoding of tree with mutation ``label`` applied to its idx-th node (pre-order)."""
    tr = tree.copy()
    nodes = _nodes(tr)
    n = nodes[idx]
    parent: t.Optional[Node] = None
    for p in nodes:
        if p.children is not None and any(c is n for c in p.children):
            parent = p
            break
    body_len = len(ber.encode(n)) - len(ber.enc_ident(n.cls, n.constructed, n.num)) - len(ber.enc_len(len(b"".join(ber.encode(c) for c in n.children)) if n.children is not None else len(n.content or b"")))
    if label == "len+1":
        n.lendelta = 1
    elif label == "len-1":
        if body_len == 0:
            return None
        n.lendelta = -1
    elif label == "len=0":
        if body_len == 0:
            return None
        n.rawlen = b"\x00"
    elif label == "len-indefinite":
        n.rawlen = b"\x80"
    elif label == "len-84-ffffffff":
        n.rawlen = b"\x84\xff\xff\xff\xff"
    elif label == "len-126-octets":
        n.rawlen = b"\xfe" + b"\x00" * 125 + bytes([body_len & 0xFF])
    elif label == "len-81-form":
        if body_len > 255:
            return None
        n.lenform = "81"
    elif label == "len-84-form":
        n.lenform = "84"
    elif label == "len-85-form":
        n.lenform = "85"
    elif label == "len-88-form":
        n.rawlen = b"\x88" + body_len.to_bytes(8, "big")
    elif label == "class+1":
        n.cls = (n.cls + 1) % 4
    elif label == "class-1":
        n.cls = (n.cls - 1) % 4
    elif label == "tag=31":
        n.num = 31
    elif label in ("tag=37", "tag=128", "tag=16384"):
        # high-tag-number form, 1 / 2 / 3 subsequent octets; in the UNIVERSAL class these are numbers X.680 does not assign
        n.num = int(label[4:])
    elif label == "tag=31-dangling":
        n.rawident = bytes([(n.cls << 6) | (0x20 if n.constructed else 0) | 31, 0x81])
    elif label == "pc-flip":
        if n.children is not None:
            n.content = b"".join(ber.encode(c) for c in n.children)
            n.children = None
            n.constructed = False
        else:
            n.constructed = True  # primitive content now claimed to be a sequence of TLVs
            n.rawident = ber.enc_ident(n.cls, True, n.num)
    elif label == "empty":
        if body_len == 0:
            return None
        if n.children is not None:
            n.children = []
        else:
            n.content = b""
    elif label == "truncate-1":
        if n.children is not None or not n.content:
            return None
        n.content = n.content[:-1]
    elif label == "delete":
        if parent is None:
            return None
        parent.children = [c for c in parent.children if c is not n]  # type: ignore[union-attr]
    elif label == "duplicate":
        if parent is None:
            return None
        i = [k for k, c in enumerate(parent.children) if c is n][0]  # type: ignore[arg-type]
        parent.children.insert(i, n.copy())  # type: ignore[union-attr]
    elif label in ("stub-1", "stub-2"):
        # the element is cut down to the start of its own header: the parent's content now ends inside a TLV header
        n.rawident = ber.enc_ident(n.cls, n.constructed, n.num)[:1]
        n.rawlen = b"" if label == "stub-1" else b"\x82"
        n.children = None
        n.content = b""
    elif label == "append-junk":
        if n.children is None:
            return None
        n.children.append(Node(ber.CONTEXT, False, 25, b"\x01"))
    else:
        raise KeyError(label)
    return ber.encode(tr)


def mutants(data: bytes, menu: t.Sequence[str] = MENU) -> t.Iterator[t.Tuple[str, int, bytes]]:
    tree, end = ber.parse_one(data, 0, strict=False)
    assert end == len(data)
    count = len(_nodes(tree))
    for idx in range(count):
        for label in menu:
            b = apply(tree, idx, label)
            if b is not None and b != data:
                yield label, idx, b


def node_count(data: bytes) -> int:
    tree, _ = ber.parse_one(data, 0, strict=False)
    return len(_nodes(tree))
