"""Regular expressions as models: CPython's own sre parse tree -> epsilon-NFA, minterm alphabet,
exhaustive product-automaton search for exponential degree of ambiguity (EDA), conformance of the
model against the real ``re`` engine by exhaustive short-word replay, and witness pumping.

A backtracking matcher pays for every partial path, so ambiguity is judged on the automaton with
all states accepting.  No EDA  =>  the number of partial paths, hence sre's work, is polynomial in
the input length for every input.  (Polynomial ambiguity -- IDA -- is not reported: the property
only rules out exponential families.)
"""
from __future__ import annotations

import collections
import re
import re._constants as C
import re._parser as P
import time
import typing as t


class Unsupported(Exception):
    pass


class NFA:
    def __init__(self) -> None:
        self.n = 0
        self.eps: t.Dict[int, t.List[int]] = collections.defaultdict(list)
        self.sym: t.Dict[int, t.List[t.Tuple[int, int]]] = collections.defaultdict(list)  # state -> [(atom id, target)]
        self.atoms: t.List[t.Tuple[t.Any, t.Any]] = []
        self.start = 0
        self.end = 0

    def new(self) -> int:
        self.n += 1
        return self.n - 1

    def atom(self, a: t.Tuple[t.Any, t.Any]) -> int:
        self.atoms.append(a)
        return len(self.atoms) - 1


def _build_seq(nfa: NFA, sp: t.Any, s: int, flags: int) -> int:
    cur = s
    for op, av in sp:
        cur = _build1(nfa, op, av, cur, flags)
    return cur


def _build1(nfa: NFA, op: t.Any, av: t.Any, s: int, flags: int) -> int:
    if op in (C.LITERAL, C.NOT_LITERAL, C.IN, C.ANY):
        if flags & re.IGNORECASE:
            raise Unsupported("IGNORECASE")
        e = nfa.new()
        nfa.sym[s].append((nfa.atom((op, av, bool(flags & re.DOTALL))), e))
        return e
    if op is C.AT:
        return s  # anchors consume nothing; acceptance is compared through fullmatch
    if op is C.SUBPATTERN:
        add = av[1] if len(av) > 3 else 0
        return _build_seq(nfa, av[-1], s, flags | (add or 0))
    if op is C.BRANCH:
        e = nfa.new()
        for b in av[1]:
            bs = nfa.new()
            nfa.eps[s].append(bs)
            be = _build_seq(nfa, b, bs, flags)
            nfa.eps[be].append(e)
        return e
    if op in (C.MAX_REPEAT, C.MIN_REPEAT):
        lo, hi, body = av
        if lo > 64 or (hi is not C.MAXREPEAT and hi > 64):
            raise Unsupported("large counted repeat")
        cur = s
        for _ in range(lo):
            cur = _build_seq(nfa, body, cur, flags)
        if hi is C.MAXREPEAT:
            ls = nfa.new()
            nfa.eps[cur].append(ls)
            be = _build_seq(nfa, body, ls, flags)
            nfa.eps[be].append(ls)
            e = nfa.new()
            nfa.eps[ls].append(e)
            return e
        e = nfa.new()
        nfa.eps[cur].append(e)
        for _ in range(hi - lo):
            ns = nfa.new()
            nfa.eps[cur].append(ns)
            cur = _build_seq(nfa, body, ns, flags)
            nfa.eps[cur].append(e)
        return e
    raise Unsupported(str(op))


def build(pattern: t.Union[str, bytes], flags: int = 0) -> NFA:
    sp = P.parse(pattern, flags)
    flags = sp.state.flags
    nfa = NFA()
    nfa.start = nfa.new()
    nfa.end = _build_seq(nfa, sp, nfa.start, flags)
    return nfa


def atom_match(atom: t.Tuple[t.Any, t.Any, bool], c: int) -> bool:
    op, av, dotall = atom
    if op is C.LITERAL:
        return c == av
    if op is C.NOT_LITERAL:
        return c != av
    if op is C.ANY:
        return dotall or c != 10
    neg = False
    res = False
    for o, a in av:
        if o is C.NEGATE:
            neg = True
        elif o is C.LITERAL:
            res |= c == a
        elif o is C.RANGE:
            res |= a[0] <= c <= a[1]
        elif o is C.CATEGORY:
            s = chr(c)
            if a is C.CATEGORY_DIGIT:
                res |= s.isdigit()
            elif a is C.CATEGORY_NOT_DIGIT:
                res |= not s.isdigit()
            elif a is C.CATEGORY_SPACE:
                res |= s.isspace()
            elif a is C.CATEGORY_NOT_SPACE:
                res |= not s.isspace()
            elif a is C.CATEGORY_WORD:
                res |= s.isalnum() or s == "_"
            elif a is C.CATEGORY_NOT_WORD:
                res |= not (s.isalnum() or s == "_")
            else:
                raise Unsupported(str(a))
        else:
            raise Unsupported(str(o))
    return res != neg


def minterms(nfa: NFA, isbytes: bool) -> t.Dict[t.Tuple[bool, ...], int]:
    """signature (which atoms match) -> one representative code point; signatures matching no atom are dropped."""
    cands = {0, 1, 9, 10, 13, 32, 33, 48, 57, 65, 90, 95, 97, 122, 126, 127, 128, 255, 0xE9, 0x2603, 0x10000}
    for op, av, _d in nfa.atoms:
        if op in (C.LITERAL, C.NOT_LITERAL):
            cands.update([av - 1, av, av + 1])
        elif op is C.IN:
            for o, a in av:
                if o is C.LITERAL:
                    cands.update([a - 1, a, a + 1])
                elif o is C.RANGE:
                    cands.update([a[0] - 1, a[0], a[1], a[1] + 1])
    if isbytes:
        cands = set(range(256))
    sig: t.Dict[t.Tuple[bool, ...], int] = {}
    for c in sorted(x for x in cands if 0 <= x <= 0x10FFFF and (not isbytes or x < 256) and not 0xD800 <= x <= 0xDFFF):
        k = tuple(atom_match(a, c) for a in nfa.atoms)
        if any(k):
            sig.setdefault(k, c)
    return sig


Edge = t.Tuple[int, int, int, t.Tuple[int, ...]]  # (source anchor, atom, target anchor, epsilon path)


def edges(nfa: NFA) -> t.Tuple[t.Set[int], t.List[Edge]]:
    anchors = {nfa.start} | {q for p in list(nfa.sym) for (_, q) in nfa.sym[p]}
    E: t.List[Edge] = []
    for p in sorted(anchors):
        stack: t.List[t.Tuple[int, t.Tuple[int, ...]]] = [(p, (p,))]
        while stack:
            u, path = stack.pop()
            for a, q in nfa.sym.get(u, []):
                E.append((p, a, q, path))
            for v in nfa.eps.get(u, []):
                if v not in path:  # distinct epsilon paths stay distinct; epsilon cycles are not unrolled
                    stack.append((v, path + (v,)))
    return anchors, E


def sccs(nodes: t.Iterable[t.Any], succ: t.Callable[[t.Any], t.Iterable[t.Any]]) -> t.List[t.List[t.Any]]:
    """Tarjan, iterative."""
    index: t.Dict[t.Any, int] = {}
    low: t.Dict[t.Any, int] = {}
    on: t.Set[t.Any] = set()
    st: t.List[t.Any] = []
    out: t.List[t.List[t.Any]] = []
    counter = 0
    for root in nodes:
        if root in index:
            continue
        work = [(root, iter(succ(root)))]
        index[root] = low[root] = counter
        counter += 1
        st.append(root)
        on.add(root)
        while work:
            v, it = work[-1]
            advanced = False
            for w in it:
                if w not in index:
                    index[w] = low[w] = counter
                    counter += 1
                    st.append(w)
                    on.add(w)
                    work.append((w, iter(succ(w))))
                    advanced = True
                    break
                if w in on:
                    low[v] = min(low[v], index[w])
            if advanced:
                continue
            work.pop()
            if work:
                u = work[-1][0]
                low[u] = min(low[u], low[v])
            if low[v] == index[v]:
                comp = []
                while True:
                    w = st.pop()
                    on.discard(w)
                    comp.append(w)
                    if w == v:
                        break
                out.append(comp)
    return out


class Analysis:
    def __init__(self) -> None:
        self.nfa_states = 0
        self.anchors = 0
        self.edges = 0
        self.minterms = 0
        self.product_states = 0
        self.product_transitions = 0
        self.eda: t.Optional[t.Dict[str, t.Any]] = None  # first witness
        self.edas: t.List[t.Dict[str, t.Any]] = []  # one witness per ambiguous product SCC (capped)


def analyse(pattern: t.Union[str, bytes], flags: int = 0) -> Analysis:
    nfa = build(pattern, flags)
    isbytes = isinstance(pattern, bytes)
    sig = minterms(nfa, isbytes)
    anchors, E = edges(nfa)
    res = Analysis()
    res.nfa_states, res.anchors, res.edges, res.minterms = nfa.n, len(anchors), len(E), len(sig)
    bysrc: t.Dict[int, t.List[int]] = collections.defaultdict(list)
    for i, e in enumerate(E):
        bysrc[e[0]].append(i)
    adj: t.Dict[int, t.Set[int]] = collections.defaultdict(set)
    for p, _a, q, _path in E:
        adj[p].add(q)
    for comp in sccs(sorted(anchors), lambda x: sorted(adj.get(x, ()))):
        cs = set(comp)
        if len(comp) == 1 and comp[0] not in adj.get(comp[0], ()):
            continue
        Ei = [i for i, e in enumerate(E) if e[0] in cs and e[2] in cs]
        mt = {i: frozenset(k for k in sig if k[E[i][1]]) for i in Ei}
        inside = set(Ei)
        succ_e = {i: [k for k in bysrc[E[i][2]] if k in inside] for i in Ei}
        pairs = {(i, j) for i in Ei for j in Ei if mt[i] & mt[j]}
        res.product_states += len(pairs)

        def psucc(n: t.Tuple[int, int]) -> t.List[t.Tuple[int, int]]:
            return [(k, l) for k in succ_e[n[0]] for l in succ_e[n[1]] if (k, l) in pairs]

        for n in pairs:
            res.product_transitions += len(psucc(n))
        for pc in sccs(sorted(pairs), psucc):
            if len(pc) == 1 and pc[0] not in psucc(pc[0]):
                continue
            diag = [x for x in pc if x[0] == x[1]]
            off = [x for x in pc if x[0] != x[1]]
            if diag and off and len(res.edas) < 6:
                res.edas.append(_witness(nfa, sig, E, bysrc, set(pc), psucc, mt, sorted(diag)[0], isbytes))
                res.eda = res.eda or res.edas[0]
    return res


def _bfs(start: t.Any, goal: t.Callable[[t.Any], bool], succ: t.Callable[[t.Any], t.Iterable[t.Any]], allow_zero: bool) -> t.Optional[t.List[t.Any]]:
    if allow_zero and goal(start):
        return [start]
    prev: t.Dict[t.Any, t.Any] = {}
    dq = collections.deque([start])
    seen = {start} if allow_zero else set()
    while dq:
        u = dq.popleft()
        for v in succ(u):
            if v in seen:
                continue
            seen.add(v)
            prev[v] = u
            if goal(v):
                path = [v]
                while path[-1] != start or len(path) == 1:
                    path.append(prev[path[-1]])
                    if path[-1] == start:
                        break
                return list(reversed(path))
            dq.append(v)
    return None


def _witness(nfa: NFA, sig: t.Dict[t.Tuple[bool, ...], int], E: t.List[Edge], bysrc: t.Dict[int, t.List[int]], comp: t.Set[t.Tuple[int, int]],
             psucc: t.Callable[[t.Tuple[int, int]], t.List[t.Tuple[int, int]]], mt: t.Dict[int, t.FrozenSet[t.Tuple[bool, ...]]], d: t.Tuple[int, int], isbytes: bool) -> t.Dict[str, t.Any]:  # fmt: skip
    def inner(n: t.Tuple[int, int]) -> t.List[t.Tuple[int, int]]:
        return [m for m in psucc(n) if m in comp]

    out_path = _bfs(d, lambda n: n[0] != n[1], inner, False) or [d]
    back = _bfs(out_path[-1], lambda n: n == d, inner, False) or [out_path[-1]]
    cycle = out_path[1:] + back[1:]  # product nodes visited after leaving d, ending in d
    if not cycle or cycle[-1] != d:
        cycle = cycle + [d]

    def ch(n: t.Tuple[int, int]) -> int:
        common = sorted(mt[n[0]] & mt[n[1]], key=lambda k: sig[k])
        return sig[common[0]]

    # the cycle consumes: the symbol of every node entered, starting from d's own symbol
    v = [ch(d)] + [ch(n) for n in cycle[:-1]]
    # prefix: from the start anchor to the source anchor of edge d[0], by edges
    target = E[d[0]][0]
    adj: t.Dict[int, t.List[t.Tuple[int, int]]] = collections.defaultdict(list)
    for i, e in enumerate(E):
        adj[e[0]].append((e[2], i))
    prev: t.Dict[int, t.Tuple[int, int]] = {}
    dq = collections.deque([nfa.start])
    seen = {nfa.start}
    while dq:
        u = dq.popleft()
        if u == target:
            break
        for q, i in adj[u]:
            if q not in seen:
                seen.add(q)
                prev[q] = (u, i)
                dq.append(q)
    u_syms: t.List[int] = []
    cur = target
    while cur != nfa.start and cur in prev:
        pu, i = prev[cur]
        k = sorted((k for k in sig if k[E[i][1]]), key=lambda k: sig[k])[0]
        u_syms.append(sig[k])
        cur = pu
    u_syms.reverse()
    conv = (lambda xs: bytes(xs)) if isbytes else (lambda xs: "".join(map(chr, xs)))
    return {"prefix": conv(u_syms), "pump": conv(v), "edges": [E[d[0]][:3], E[out_path[-1][0]][:3], E[out_path[-1][1]][:3]]}


def accepts(nfa: NFA, word: t.Sequence[int]) -> bool:
    cur = _closure(nfa, {nfa.start})
    for c in word:
        nxt = set()
        for s in cur:
            for a, q in nfa.sym.get(s, []):
                if atom_match(nfa.atoms[a], c):
                    nxt.add(q)
        cur = _closure(nfa, nxt)
        if not cur:
            return False
    return nfa.end in cur


def _closure(nfa: NFA, states: t.Set[int]) -> t.FrozenSet[int]:
    out = set(states)
    st = list(states)
    while st:
        u = st.pop()
        for v in nfa.eps.get(u, []):
            if v not in out:
                out.add(v)
                st.append(v)
    return frozenset(out)


def conformance(pattern: t.Union[str, bytes], flags: int, maxlen: int, cap: int) -> t.Tuple[int, t.Optional[str], bool]:
    """Replay every viable prefix of the model (and each one-symbol dead extension) up to maxlen
    against the real compiled pattern: fullmatch acceptance must agree.  -> (words, mismatch, capped)"""
    nfa = build(pattern, flags)
    isbytes = isinstance(pattern, bytes)
    sig = minterms(nfa, isbytes)
    reps = sorted(set(sig.values()))
    other = next((c for c in ([0, 33, 126, 255] if isbytes else [0, 33, 126, 0x2603]) if c not in reps and all(not atom_match(a, c) for a in nfa.atoms)), None)
    rx = re.compile(pattern, flags)
    conv = (lambda xs: bytes(xs)) if isbytes else (lambda xs: "".join(map(chr, xs)))
    n = 0
    capped = False
    frontier: t.List[t.Tuple[t.Tuple[int, ...], t.FrozenSet[int]]] = [((), _closure(nfa, {nfa.start}))]
    for _ln in range(maxlen + 1):
        nxt = []
        for word, cur in frontier:
            n += 1
            model = nfa.end in cur
            real = rx.fullmatch(conv(word)) is not None
            if model != real:
                return n, f"word {conv(word)!r}: model {'accepts' if model else 'rejects'}, re {'accepts' if real else 'rejects'}", capped
            for c in reps + ([other] if other is not None else []):
                st = set()
                for s in cur:
                    for a, q in nfa.sym.get(s, []):
                        if atom_match(nfa.atoms[a], c):
                            st.add(q)
                if st:
                    nxt.append((word + (c,), _closure(nfa, st)))
                else:
                    n += 1
                    if rx.fullmatch(conv(word + (c,))) is not None:
                        return n, f"word {conv(word + (c,))!r}: dead in the model, accepted by re", capped
        if len(nxt) > cap:
            nxt = nxt[:cap]
            capped = True
        frontier = nxt
    return n, None, capped


def confirm_blowup(pattern: t.Union[str, bytes], flags: int, method: str, w: t.Dict[str, t.Any], budget_s: float = 4.0) -> t.Optional[t.Dict[str, t.Any]]:
    """Turn an EDA witness into a pumped family u v^k w and time the real engine.  Only a confirmed
    blow-up (CPU time at least x1.7 per added pump over three consecutive increments) is returned."""
    rx = re.compile(pattern, flags)
    isbytes = isinstance(pattern, bytes)
    tails = [b"", b"\x00", b"!", b"\n", b"'", b"\\", b"(", b")", b"\xff"] if isbytes else ["", "\x00", "!", "\n", "'", "\\", "(", ")", "☃"]
    best = None
    for tail in tails:
        def run(k: int) -> float:
            s = w["prefix"] + w["pump"] * k + tail
            t0 = time.process_time()
            if method == "sub":
                rx.sub(lambda m: m.group(0), s)
            else:
                getattr(rx, method)(s)
            return time.process_time() - t0

        # one pump at a time: a family that multiplies the work by >= 1.7 per pump passes 0.4 s well before
        # k = 64, so k never has to leap into a region that takes minutes
        k = 1
        times: t.List[t.Tuple[int, float]] = []
        spent = 0.0
        while k <= 64 and spent < budget_s:
            dt = run(k)
            if dt > 0.0005:
                dt = min(dt, run(k))
            spent += dt * 2
            times.append((k, dt))
            if dt > 0.4:
                break
            k += 1
        big = [(k, dt) for k, dt in times if dt > 0.004]
        # a pump of several characters can multiply the work by 10 or more per step and cross from "too fast to time" to
        # "too slow to continue" in two steps: two consecutive increments of >= x3 (timed from 0.5 ms, best of two runs) count too
        fast = [(k, dt) for k, dt in times if dt > 0.0005]
        for (k1, t1), (k2, t2), (k3, t3) in zip(fast, fast[1:], fast[2:]):
            if k2 == k1 + 1 and k3 == k2 + 1 and t2 >= 3 * t1 and t3 >= 3 * t2 and t3 > 0.05:
                return {"tail": tail, "k": k3, "seconds": round(t3, 3), "family": f"{w['prefix']!r} + {w['pump']!r}*k + {tail!r}"}
        streak = 0
        for (k1, t1), (k2, t2) in zip(big, big[1:]):
            if k2 == k1 + 1 and t2 >= 1.7 * t1:
                streak += 1
                if streak >= 3:
                    best = {"tail": tail, "k": k2, "seconds": round(t2, 3), "family": f"{w['prefix']!r} + {w['pump']!r}*k + {tail!r}"}
                    break
            else:
                streak = 0
        if best:
            return best
    return None


def selftest() -> int:
    n = 0
    for pat, has in [(r"(a+)+b", True), (r"(a|a)*b", True), (r"(a|b)*c", False), (r"a*a*b", False), (r"([^'\\]+|\\27)+'", True), (r"([^'\\]|\\27)+'", False),
                     (r"(x[ ]*[ ]*y)*z", True), (r"(\.([0-9]|[1-9][0-9]*))*!", True), (r"(\.(0|[1-9][0-9]*))*!", False)]:  # fmt: skip
        r = analyse(pat)
        assert (r.eda is not None) == has, (pat, r.eda)
        words, bad, _cap = conformance(pat, 0, 5, 3000)
        assert bad is None, (pat, bad)
        n += 2
    w = analyse(r"(a+)+b").eda
    assert w is not None and confirm_blowup(r"(a+)+b", 0, "match", w) is not None
    assert sorted(map(sorted, sccs([1, 2, 3, 4], lambda x: {1: [2], 2: [1, 3], 3: [4], 4: []}[x]))) == [[1, 2], [3], [4]]
    return n + 2
