"""RFC 4511 (and RFC 2696) ASN.1 module as data + a generic schema-directed BER codec.

Written from RFC 4511 Appendix B; shares no code with sansldap.  Abstract values:

  INTEGER/ENUMERATED -> int      BOOLEAN -> bool      OCTET STRING -> bytes     NULL -> None
  SEQUENCE -> dict(name -> value; absent OPTIONAL -> None; absent DEFAULT -> the default)
  SEQUENCE OF / SET OF -> list (wire order)            CHOICE -> (alternative name, value)

``decode(T, node, strict)``   strict = the rules property C03 lists: exact class / number /
P-C bit everywhere, definite minimal lengths (enforced by ber.parse_one), primitive octet
strings, minimal two's-complement integers, TRUE = 0xFF, DEFAULT values absent, no element the
type does not define.  lenient = any valid BER form a conforming peer may emit.
``encode(T, value)``          canonical TLV tree, every node annotated (``note``) with the type
information the C04/C05 variant generators need.
"""
from __future__ import annotations

import typing as t

from . import ber
from .ber import APPLICATION, CONTEXT, UNIVERSAL, BerError, Node

# --- type constructors ------------------------------------------------------------------
INT = ("INT",)
ENUM = ("ENUM",)
BOOL = ("BOOL",)
OCTETS = ("OCTETS",)
NULL = ("NULL",)


def SEQ(name: str, *fields: t.Tuple[str, t.Any, t.Any]) -> t.Tuple:
    return ("SEQ", name, fields)


def SEQOF(ty: t.Any) -> t.Tuple:
    return ("SEQOF", ty)


def SETOF(ty: t.Any) -> t.Tuple:
    return ("SETOF", ty)


def CHOICE(name: str, *alts: t.Tuple[str, t.Any]) -> t.Tuple:
    return ("CHOICE", name, alts)


def IMPL(cls: int, num: int, ty: t.Any) -> t.Tuple:
    return ("IMPL", cls, num, ty)


def EXPL(cls: int, num: int, ty: t.Any) -> t.Tuple:
    return ("EXPL", cls, num, ty)


def REF(name: str) -> t.Tuple:
    return ("REF", name)


REQ = "req"
OPT = "opt"


def DEFAULT(v: t.Any) -> t.Tuple:
    return ("default", v)


# --- RFC 4511 Appendix B (the operations sansldap implements) ---------------------------
LDAPString = OCTETS
LDAPOID = OCTETS
LDAPDN = LDAPString
URI = LDAPString
AttributeDescription = LDAPString
Referral = SEQOF(URI)

Control = SEQ(
    "Control",
    ("controlType", LDAPOID, REQ),
    ("criticality", BOOL, DEFAULT(False)),
    ("controlValue", OCTETS, OPT),
)
Controls = SEQOF(Control)

LDAPResultFields = (
    ("resultCode", ENUM, REQ),
    ("matchedDN", LDAPDN, REQ),
    ("diagnosticMessage", LDAPString, REQ),
    ("referral", IMPL(CONTEXT, 3, Referral), OPT),
)

SaslCredentials = SEQ("SaslCredentials", ("mechanism", LDAPString, REQ), ("credentials", OCTETS, OPT))
AuthenticationChoice = CHOICE(
    "AuthenticationChoice",
    ("simple", IMPL(CONTEXT, 0, OCTETS)),
    ("sasl", IMPL(CONTEXT, 3, SaslCredentials)),
)
BindRequest = IMPL(
    APPLICATION,
    0,
    SEQ("BindRequest", ("version", INT, REQ), ("name", LDAPDN, REQ), ("authentication", AuthenticationChoice, REQ)),
)
BindResponse = IMPL(
    APPLICATION,
    1,
    SEQ("BindResponse", *LDAPResultFields, ("serverSaslCreds", IMPL(CONTEXT, 7, OCTETS), OPT)),
)
UnbindRequest = IMPL(APPLICATION, 2, NULL)

AVA = SEQ("AttributeValueAssertion", ("attributeDesc", AttributeDescription, REQ), ("assertionValue", OCTETS, REQ))
Substring = CHOICE(
    "substring",
    ("initial", IMPL(CONTEXT, 0, OCTETS)),
    ("any", IMPL(CONTEXT, 1, OCTETS)),
    ("final", IMPL(CONTEXT, 2, OCTETS)),
)
SubstringFilter = SEQ("SubstringFilter", ("type", AttributeDescription, REQ), ("substrings", SEQOF(Substring), REQ))
MatchingRuleAssertion = SEQ(
    "MatchingRuleAssertion",
    ("matchingRule", IMPL(CONTEXT, 1, OCTETS), OPT),
    ("type", IMPL(CONTEXT, 2, OCTETS), OPT),
    ("matchValue", IMPL(CONTEXT, 3, OCTETS), REQ),
    ("dnAttributes", IMPL(CONTEXT, 4, BOOL), DEFAULT(False)),
)
Filter = CHOICE(
    "Filter",
    ("and", IMPL(CONTEXT, 0, SETOF(REF("Filter")))),
    ("or", IMPL(CONTEXT, 1, SETOF(REF("Filter")))),
    ("not", EXPL(CONTEXT, 2, REF("Filter"))),  # tagging a CHOICE is always explicit
    ("equalityMatch", IMPL(CONTEXT, 3, AVA)),
    ("substrings", IMPL(CONTEXT, 4, SubstringFilter)),
    ("greaterOrEqual", IMPL(CONTEXT, 5, AVA)),
    ("lessOrEqual", IMPL(CONTEXT, 6, AVA)),
    ("present", IMPL(CONTEXT, 7, AttributeDescription)),
    ("approxMatch", IMPL(CONTEXT, 8, AVA)),
    ("extensibleMatch", IMPL(CONTEXT, 9, MatchingRuleAssertion)),
)
SearchRequest = IMPL(
    APPLICATION,
    3,
    SEQ(
        "SearchRequest",
        ("baseObject", LDAPDN, REQ),
        ("scope", ENUM, REQ),
        ("derefAliases", ENUM, REQ),
        ("sizeLimit", INT, REQ),
        ("timeLimit", INT, REQ),
        ("typesOnly", BOOL, REQ),
        ("filter", REF("Filter"), REQ),
        ("attributes", SEQOF(LDAPString), REQ),
    ),
)
PartialAttribute = SEQ("PartialAttribute", ("type", AttributeDescription, REQ), ("vals", SETOF(OCTETS), REQ))
SearchResultEntry = IMPL(
    APPLICATION,
    4,
    SEQ("SearchResultEntry", ("objectName", LDAPDN, REQ), ("attributes", SEQOF(PartialAttribute), REQ)),
)
SearchResultDone = IMPL(APPLICATION, 5, SEQ("SearchResultDone", *LDAPResultFields))
SearchResultReference = IMPL(APPLICATION, 19, SEQOF(URI))
ExtendedRequest = IMPL(
    APPLICATION,
    23,
    SEQ("ExtendedRequest", ("requestName", IMPL(CONTEXT, 0, LDAPOID), REQ), ("requestValue", IMPL(CONTEXT, 1, OCTETS), OPT)),
)
ExtendedResponse = IMPL(
    APPLICATION,
    24,
    SEQ(
        "ExtendedResponse",
        *LDAPResultFields,
        ("responseName", IMPL(CONTEXT, 10, LDAPOID), OPT),
        ("responseValue", IMPL(CONTEXT, 11, OCTETS), OPT),
    ),
)
ProtocolOp = CHOICE(
    "protocolOp",
    ("bindRequest", BindRequest),
    ("bindResponse", BindResponse),
    ("unbindRequest", UnbindRequest),
    ("searchRequest", SearchRequest),
    ("searchResEntry", SearchResultEntry),
    ("searchResDone", SearchResultDone),
    ("searchResRef", SearchResultReference),
    ("extendedReq", ExtendedRequest),
    ("extendedResp", ExtendedResponse),
)
LDAPMessage = SEQ(
    "LDAPMessage",
    ("messageID", INT, REQ),
    ("protocolOp", ProtocolOp, REQ),
    ("controls", IMPL(CONTEXT, 0, Controls), OPT),
)

# RFC 2696: realSearchControlValue (a module without EXTENSIBILITY IMPLIED)
PagedValue = SEQ("realSearchControlValue", ("size", INT, REQ), ("cookie", OCTETS, REQ))
PAGED_OID = b"1.2.840.113556.1.4.319"
NOTICE_OID = b"1.3.6.1.4.1.1466.20036"

NAMED = {"Filter": Filter}
NOT_EXTENSIBLE = {"realSearchControlValue"}


def resolve(ty: t.Any) -> t.Any:
    while ty[0] == "REF":
        ty = NAMED[ty[1]]
    return ty


def tags_of(ty: t.Any) -> t.List[t.Tuple[int, int, bool]]:
    """The (class, number, constructed) identifiers a value of this type may start with."""
    ty = resolve(ty)
    k = ty[0]
    if k == "INT":
        return [(UNIVERSAL, 2, False)]
    if k == "ENUM":
        return [(UNIVERSAL, 10, False)]
    if k == "BOOL":
        return [(UNIVERSAL, 1, False)]
    if k == "OCTETS":
        return [(UNIVERSAL, 4, False)]
    if k == "NULL":
        return [(UNIVERSAL, 5, False)]
    if k in ("SEQ", "SEQOF"):
        return [(UNIVERSAL, 16, True)]
    if k == "SETOF":
        return [(UNIVERSAL, 17, True)]
    if k == "IMPL":
        inner = tags_of(ty[3])
        assert len(inner) == 1, "IMPLICIT tag on a CHOICE"
        return [(ty[1], ty[2], inner[0][2])]
    if k == "EXPL":
        return [(ty[1], ty[2], True)]
    if k == "CHOICE":
        out = []
        for _n, a in ty[2]:
            out += tags_of(a)
        return out
    raise AssertionError(ty)


def _ident(n: Node) -> t.Tuple[int, int, bool]:
    return (n.cls, n.num, n.constructed)


def _matches(ty: t.Any, n: Node, strict: bool) -> bool:
    for c, num, cons in tags_of(ty):
        if c == n.cls and num == n.num and cons == n.constructed:  # RFC 4511 5.1: primitive octet strings only, in any mode
            return True
    return False


def decode(ty: t.Any, n: Node, strict: bool = True) -> t.Any:
    ty = resolve(ty)
    k = ty[0]
    if k == "CHOICE":
        for name, a in ty[2]:
            if _matches(a, n, strict):
                return (name, decode(a, n, strict))
        raise BerError(f"no alternative of {ty[1]} has identifier {_ident(n)}")
    if not _matches(ty, n, strict):
        raise BerError(f"expected {tags_of(ty)} for {k} but got {_ident(n)}")
    if k == "IMPL":
        return _decode_body(ty[3], n, strict)
    if k == "EXPL":
        if n.children is None or len(n.children) != 1:
            raise BerError("explicit tag must wrap exactly one element")
        return decode(ty[3], n.children[0], strict)
    return _decode_body(ty, n, strict)


def _decode_body(ty: t.Any, n: Node, strict: bool) -> t.Any:
    """Decode the contents of n as type ty, ignoring n's own identifier (already checked)."""
    ty = resolve(ty)
    k = ty[0]
    if k == "IMPL":
        return _decode_body(ty[3], n, strict)
    if k in ("INT", "ENUM"):
        if n.children is not None:
            raise BerError("constructed INTEGER")
        return ber.int_value(n.content or b"", strict)
    if k == "BOOL":
        if n.children is not None or len(n.content or b"") != 1:
            raise BerError("BOOLEAN must be one primitive octet")
        v = n.content[0]
        if strict and v not in (0x00, 0xFF):
            raise BerError("TRUE must be 0xFF")
        return v != 0
    if k == "OCTETS":
        if n.children is not None:
            raise BerError("constructed OCTET STRING")
        return bytes(n.content or b"")
    if k == "NULL":
        if n.children is not None or (n.content or b"") != b"":
            raise BerError("NULL must be primitive and empty")
        return None
    if k in ("SEQOF", "SETOF"):
        if n.children is None:
            raise BerError("primitive SEQUENCE/SET OF")
        return [decode(ty[1], c, strict) for c in n.children]
    if k == "SEQ":
        if n.children is None:
            raise BerError("primitive SEQUENCE")
        out: t.Dict[str, t.Any] = {}
        i = 0
        ch = n.children
        for name, fty, kind in ty[2]:
            if i < len(ch) and _matches(fty, ch[i], strict):
                v = decode(fty, ch[i], strict)
                i += 1
                if strict and isinstance(kind, tuple) and v == kind[1]:
                    raise BerError(f"DEFAULT value of {name} encoded explicitly")
                out[name] = v
            elif kind == REQ:
                got = _ident(ch[i]) if i < len(ch) else "end of SEQUENCE"
                raise BerError(f"missing {ty[1]}.{name}: got {got}")
            elif kind == OPT:
                out[name] = None
            else:
                out[name] = kind[1]
        if i < len(ch):
            if strict or ty[1] in NOT_EXTENSIBLE:
                raise BerError(f"unexpected element {_ident(ch[i])} in {ty[1]}")
            # EXTENSIBILITY IMPLIED: trailing unrecognised components are ignored
        return out
    if k == "CHOICE":
        return decode(ty, n, strict)
    raise AssertionError(ty)


def encode(ty: t.Any, v: t.Any, tag: t.Optional[t.Tuple[int, int]] = None, path: str = "") -> Node:
    """Canonical TLV tree of value v.  ``note`` on each node: dict(kind, path, ...)."""
    ty = resolve(ty)
    k = ty[0]
    if k == "CHOICE":
        assert tag is None
        name, inner = v
        for an, a in ty[2]:
            if an == name:
                return encode(a, inner, None, f"{path}.{name}" if path else name)
        raise AssertionError(name)
    if k == "IMPL":
        return encode(ty[3], v, tag or (ty[1], ty[2]), path)
    if k == "EXPL":
        c, num = tag or (ty[1], ty[2])
        return Node(c, True, num, None, [encode(ty[3], v, None, path)], note={"kind": "EXPL", "path": path})
    c, num, cons = tags_of(ty)[0]
    if tag:
        c, num = tag
    if k in ("INT", "ENUM"):
        return Node(c, False, num, ber.int_content(v), note={"kind": k, "path": path})
    if k == "BOOL":
        return Node(c, False, num, b"\xff" if v else b"\x00", note={"kind": k, "path": path, "value": bool(v)})
    if k == "OCTETS":
        return Node(c, False, num, bytes(v), note={"kind": k, "path": path})
    if k == "NULL":
        return Node(c, False, num, b"", note={"kind": k, "path": path})
    if k in ("SEQOF", "SETOF"):
        return Node(c, True, num, None, [encode(ty[1], x, None, f"{path}[{i}]") for i, x in enumerate(v)], note={"kind": k, "path": path})
    if k == "SEQ":
        ch = []
        defaults = []  # (index in children where the explicit default would go, Node)
        for name, fty, kind in ty[2]:
            fv = v.get(name)
            p = f"{path}.{name}" if path else name
            if isinstance(kind, tuple):
                if fv is None or fv == kind[1]:
                    defaults.append((len(ch), encode(fty, kind[1], None, p)))
                    continue
            elif kind == OPT and fv is None:
                continue
            ch.append(encode(fty, fv, None, p))
        return Node(c, True, num, None, ch, note={"kind": "SEQ", "path": path, "name": ty[1], "defaults": defaults, "extensible": ty[1] not in NOT_EXTENSIBLE})
    raise AssertionError(ty)


def decode_message(data: bytes, strict: bool = True) -> t.Dict[str, t.Any]:
    node, end = ber.parse_one(data, 0, strict)
    if end != len(data):
        raise BerError("trailing bytes after LDAPMessage")
    return decode(LDAPMessage, node, strict)


def encode_message(v: t.Dict[str, t.Any]) -> Node:
    return encode(LDAPMessage, v)


def decode_paged_value(value: bytes, strict: bool = True) -> t.Dict[str, t.Any]:
    node, end = ber.parse_one(value, 0, strict)
    if end != len(value):
        raise BerError("trailing bytes after realSearchControlValue")
    return decode(PagedValue, node, strict)


# RFC 4511 Appendix B: the named numbers of the ENUMERATED types (transcribed from the RFC, not from the library)
RESULT_CODES = {
    "success": 0, "operationsError": 1, "protocolError": 2, "timeLimitExceeded": 3, "sizeLimitExceeded": 4, "compareFalse": 5,
    "compareTrue": 6, "authMethodNotSupported": 7, "strongerAuthRequired": 8, "referral": 10, "adminLimitExceeded": 11,
    "unavailableCriticalExtension": 12, "confidentialityRequired": 13, "saslBindInProgress": 14, "noSuchAttribute": 16,
    "undefinedAttributeType": 17, "inappropriateMatching": 18, "constraintViolation": 19, "attributeOrValueExists": 20,
    "invalidAttributeSyntax": 21, "noSuchObject": 32, "aliasProblem": 33, "invalidDNSyntax": 34, "aliasDereferencingProblem": 36,
    "inappropriateAuthentication": 48, "invalidCredentials": 49, "insufficientAccessRights": 50, "busy": 51, "unavailable": 52,
    "unwillingToPerform": 53, "loopDetect": 54, "namingViolation": 64, "objectClassViolation": 65, "notAllowedOnNonLeaf": 66,
    "notAllowedOnRDN": 67, "entryAlreadyExists": 68, "objectClassModsProhibited": 69, "affectsMultipleDSAs": 71, "other": 80,
}  # fmt: skip
SEARCH_SCOPE = {"baseObject": 0, "singleLevel": 1, "wholeSubtree": 2}
DEREF_ALIASES = {"neverDerefAliases": 0, "derefInSearching": 1, "derefFindingBaseObj": 2, "derefAlways": 3}
