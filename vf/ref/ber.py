"""Independent BER TLV layer (X.690), written from the standard.  Never imports sansldap.

Node      -- a parsed or to-be-encoded TLV:  cls (0..3), constructed, num, and either
             ``content`` (bytes, primitive) or ``children`` (list[Node], constructed).
             ``lenform`` selects how the length is written ('min', '81', '82', '84', '85').
parse     -- strict (DER-like: minimal tag and length octets, definite) or lenient (any
             definite BER form) parser of one TLV / a whole buffer.
frame     -- outer framing only: how many complete top-level TLVs does a byte string hold.
"""
from __future__ import annotations

import typing as t

UNIVERSAL, APPLICATION, CONTEXT, PRIVATE = 0, 1, 2, 3


class BerError(Exception):
    pass


class Incomplete(BerError):
    pass


class Node:
    __slots__ = ("cls", "constructed", "num", "content", "children", "lenform", "note", "rawlen", "rawident", "lendelta")

    def __init__(
        self,
        cls: int,
        constructed: bool,
        num: int,
        content: t.Optional[bytes] = None,
        children: t.Optional[t.List["Node"]] = None,
        lenform: str = "min",
        note: t.Any = None,
    ) -> None:
        self.cls = cls
        self.constructed = constructed
        self.num = num
        self.content = content
        self.children = children
        self.lenform = lenform
        self.note = note  # free annotation used by the LDAP layer (type name, role)
        # fault injection (C05/C06): explicit identifier / length octets, or an offset added to the true length
        self.rawlen: t.Optional[bytes] = None
        self.rawident: t.Optional[bytes] = None
        self.lendelta = 0

    def copy(self) -> "Node":
        n = Node(
            self.cls,
            self.constructed,
            self.num,
            self.content,
            [c.copy() for c in self.children] if self.children is not None else None,
            self.lenform,
            self.note,
        )
        n.rawlen, n.rawident, n.lendelta = self.rawlen, self.rawident, self.lendelta
        return n

    def walk(self) -> t.Iterator["Node"]:
        yield self
        for c in self.children or []:
            yield from c.walk()

    def __repr__(self) -> str:
        k = "UACP"[self.cls]
        if self.children is not None:
            return f"{k}{self.num}c[{', '.join(map(repr, self.children))}]"
        return f"{k}{self.num}{'c' if self.constructed else 'p'}:{(self.content or b'').hex()}"


def enc_ident(cls: int, constructed: bool, num: int) -> bytes:
    first = (cls << 6) | (0x20 if constructed else 0)
    if num < 31:
        return bytes([first | num])
    digits = []
    n = num
    while True:
        digits.append(n & 0x7F)
        n >>= 7
        if not n:
            break
    digits.reverse()
    return bytes([first | 31] + [d | 0x80 for d in digits[:-1]] + [digits[-1]])


def enc_len(n: int, form: str = "min") -> bytes:
    if form == "min":
        if n < 128:
            return bytes([n])
        b = n.to_bytes((n.bit_length() + 7) // 8, "big")
        return bytes([0x80 | len(b)]) + b
    k = {"81": 1, "82": 2, "83": 3, "84": 4, "85": 5, "88": 8}[form]
    if n >= 1 << (8 * k):
        return enc_len(n, "min")
    return bytes([0x80 | k]) + n.to_bytes(k, "big")


def encode(node: Node) -> bytes:
    if node.children is not None:
        body = b"".join(encode(c) for c in node.children)
    else:
        body = node.content or b""
    ident = node.rawident if node.rawident is not None else enc_ident(node.cls, node.constructed, node.num)
    if node.rawlen is not None:
        ln = node.rawlen
    else:
        ln = enc_len(max(0, len(body) + node.lendelta), node.lenform)
    return ident + ln + body


def read_header(data: bytes, pos: int, strict: bool) -> t.Tuple[int, bool, int, int, int]:
    """-> (cls, constructed, num, content_length, header_length).  Raises Incomplete / BerError."""
    n = len(data)
    if pos >= n:
        raise Incomplete("no identifier octet")
    first = data[pos]
    cls = first >> 6
    constructed = bool(first & 0x20)
    num = first & 0x1F
    i = pos + 1
    if num == 31:
        num = 0
        cnt = 0
        while True:
            if i >= n:
                raise Incomplete("identifier continues")
            c = data[i]
            i += 1
            if strict and cnt == 0 and c == 0x80:
                raise BerError("high tag number with leading zero septet")
            num = (num << 7) | (c & 0x7F)
            cnt += 1
            if not c & 0x80:
                break
        if strict and num < 31:
            raise BerError("high-tag form used for a tag number below 31")
    if i >= n:
        raise Incomplete("no length octet")
    l0 = data[i]
    i += 1
    if l0 == 0x80:
        raise BerError("indefinite length")
    if l0 & 0x80:
        k = l0 & 0x7F
        if k == 0x7F:
            raise BerError("reserved length octet 0xFF")
        if i + k > n:
            raise Incomplete("length octets continue")
        length = int.from_bytes(data[i : i + k], "big")
        if strict and (length < 128 or data[i] == 0):
            raise BerError("non-minimal length")
        i += k
    else:
        length = l0
    return cls, constructed, num, length, i - pos


def parse_one(data: bytes, pos: int = 0, strict: bool = True, end: t.Optional[int] = None) -> t.Tuple[Node, int]:
    """Parse one TLV (recursively for constructed ones) starting at pos.  -> (node, next pos)."""
    end = len(data) if end is None else end
    cls, constructed, num, length, hl = read_header(data[:end], pos, strict)
    start = pos + hl
    if start + length > end:
        raise Incomplete("content continues")
    if constructed:
        children = []
        p = start
        while p < start + length:
            try:
                c, p = parse_one(data, p, strict, start + length)
            except Incomplete as e:
                raise BerError(f"element overruns its parent: {e}") from None
            children.append(c)
        return Node(cls, True, num, None, children), start + length
    return Node(cls, False, num, bytes(data[start : start + length]), None), start + length


def parse_all(data: bytes, strict: bool = True) -> t.List[Node]:
    out = []
    p = 0
    while p < len(data):
        n, p = parse_one(data, p, strict)
        out.append(n)
    return out


def frame(data: bytes) -> t.Tuple[t.List[t.Tuple[int, int]], int]:
    """Outer framing only.  -> ([(start, end) of every complete top-level unit], bytes consumed).

    A unit whose header is malformed (indefinite / reserved length) makes framing stop: the
    extents found so far are returned together with the position of the bad unit, and BerError
    is raised by ``frame_strict`` callers that need to know.  Only identifier + definite length
    are interpreted; nothing inside the unit is looked at.
    """
    units = []
    p = 0
    n = len(data)
    while p < n:
        try:
            _c, _k, _n, length, hl = read_header(data, p, False)
        except Incomplete:
            break
        except BerError:
            break  # indefinite / reserved length octet: no further unit can be framed
        if p + hl + length > n:
            break
        units.append((p, p + hl + length))
        p += hl + length
    return units, p


def int_content(v: int) -> bytes:
    """Minimal two's-complement content octets of an INTEGER."""
    n = 1
    while True:
        try:
            return v.to_bytes(n, "big", signed=True)
        except OverflowError:
            n += 1


def int_value(content: bytes, strict: bool = True) -> int:
    if not content:
        raise BerError("empty INTEGER contents")
    if strict and len(content) > 1:
        if (content[0] == 0x00 and not content[1] & 0x80) or (content[0] == 0xFF and content[1] & 0x80):
            raise BerError("non-minimal INTEGER")
    return int.from_bytes(content, "big", signed=True)
