"""RFC 4512 section 4.1.1 / 4.1.2 / 4.1.6 description parsers (recursive descent, written from the
ABNF) plus the quoted-SYNTAX variant Active Directory emits.  Never imports sansldap.

``parse_oc / parse_at / parse_dcr(text)`` return a plain dict of the field values the grammar
denotes, keyed like the library's dataclasses (enums as their string value, extension names
without the ``X-`` prefix -- the library's convention).  ``Bad`` = not in the grammar.
"""
from __future__ import annotations

import re
import typing as t


class Bad(Exception):
    pass


NUMBER = r"(?:0|[1-9][0-9]*)"
NUMOID = rf"{NUMBER}(?:\.{NUMBER})+"
DESCR = r"[A-Za-z][A-Za-z0-9-]*"
_RX: t.Dict[str, t.Pattern[str]] = {}


class P:
    def __init__(self, s: str) -> None:
        self.s = s
        self.i = 0

    def peek(self, lit: str) -> bool:
        return self.s.startswith(lit, self.i)

    def lit(self, l: str) -> None:
        if not self.peek(l):
            raise Bad(f"expected {l!r} at {self.i}")
        self.i += len(l)

    def wsp(self) -> None:
        while self.i < len(self.s) and self.s[self.i] == " ":
            self.i += 1

    def sp(self) -> None:
        if not self.peek(" "):
            raise Bad(f"SP expected at {self.i}")
        self.wsp()

    def rx(self, pat: str) -> str:
        r = _RX.get(pat)
        if r is None:
            r = _RX[pat] = re.compile(pat)
        m = r.match(self.s, self.i)
        if not m:
            raise Bad(f"{pat} expected at {self.i}")
        self.i = m.end()
        return m.group(0)

    def numericoid(self) -> str:
        return self.rx(NUMOID)

    def oid(self) -> str:
        # descr / numericoid; a numericoid never starts with a letter so the order is immaterial
        return self.rx(f"{DESCR}|{NUMOID}")

    def qdescr(self) -> str:
        self.lit("'")
        d = self.rx(DESCR)
        self.lit("'")
        return d

    def _list(self, item: t.Callable[[], t.Any]) -> t.List[t.Any]:
        """LPAREN WSP [ item *( SP item ) ] WSP RPAREN"""
        self.lit("(")
        self.wsp()
        out = []
        if self.peek("'"):
            out.append(item())
            while True:
                j = self.i
                if not self.peek(" "):
                    break
                self.wsp()
                if self.peek("'"):
                    out.append(item())
                else:
                    self.i = j
                    break
        self.wsp()
        self.lit(")")
        return out

    def qdescrs(self) -> t.List[str]:
        if self.peek("'"):
            return [self.qdescr()]
        return self._list(self.qdescr)

    def oids(self) -> t.List[str]:
        if not self.peek("("):
            return [self.oid()]
        self.lit("(")
        self.wsp()
        out = [self.oid()]
        while True:
            j = self.i
            self.wsp()
            if self.peek("$"):
                self.lit("$")
                self.wsp()
                out.append(self.oid())
            else:
                self.i = j
                break
        self.wsp()
        self.lit(")")
        return out

    def qdstring(self) -> str:
        self.lit("'")
        out = []
        while not self.peek("'"):
            if self.i >= len(self.s):
                raise Bad("end of input inside a quoted string")
            if self.peek("\\27"):
                out.append("'")
                self.i += 3
            elif self.peek("\\5c") or self.peek("\\5C"):
                out.append("\\")
                self.i += 3
            elif self.peek("\\"):
                raise Bad("a backslash must be written \\5c")
            else:
                out.append(self.s[self.i])
                self.i += 1
        if not out:
            raise Bad("dstring = 1*( ... )")
        self.lit("'")
        return "".join(out)

    def qdstrings(self) -> t.List[str]:
        if self.peek("'"):
            return [self.qdstring()]
        return self._list(self.qdstring)

    def opt(self, kw: str) -> bool:
        """[ SP kw ... ] -- look ahead for SP followed by the keyword as a whole word."""
        j = self.i
        if self.peek(" "):
            self.wsp()
            end = self.i + len(kw)
            if self.peek(kw) and not re.match(r"[A-Za-z0-9-]", self.s[end : end + 1] or " "):
                self.i = end
                return True
        self.i = j
        return False

    def extensions(self) -> t.Dict[str, t.List[str]]:
        ext: t.Dict[str, t.List[str]] = {}
        while True:
            j = self.i
            try:
                self.sp()
                k = self.rx(r"[xX]-[A-Za-z_-]+")
                self.sp()
                ext[k[2:]] = self.qdstrings()
            except Bad:
                self.i = j
                break
        return ext


def _head(p: P) -> t.Dict[str, t.Any]:
    p.lit("(")
    p.wsp()
    r: t.Dict[str, t.Any] = {"oid": p.numericoid(), "names": [], "description": None, "obsolete": False}
    if p.opt("NAME"):
        p.sp()
        r["names"] = p.qdescrs()
    if p.opt("DESC"):
        p.sp()
        r["description"] = p.qdstring()
    if p.opt("OBSOLETE"):
        r["obsolete"] = True
    return r


def _tail(p: P, r: t.Dict[str, t.Any], whole: bool) -> t.Dict[str, t.Any]:
    r["extensions"] = p.extensions()
    p.wsp()
    p.lit(")")
    if whole and p.i != len(p.s):
        raise Bad("trailing characters")
    return r


def parse_oc(s: str, whole: bool = True) -> t.Dict[str, t.Any]:
    p = P(s)
    r = _head(p)
    r.update(super_types=[], kind="STRUCTURAL", must=[], may=[])
    if p.opt("SUP"):
        p.sp()
        r["super_types"] = p.oids()
    for k in ("ABSTRACT", "STRUCTURAL", "AUXILIARY"):
        if p.opt(k):
            r["kind"] = k
            break
    if p.opt("MUST"):
        p.sp()
        r["must"] = p.oids()
    if p.opt("MAY"):
        p.sp()
        r["may"] = p.oids()
    return _tail(p, r, whole)


def parse_at(s: str, whole: bool = True) -> t.Dict[str, t.Any]:
    p = P(s)
    r = _head(p)
    r.update(super_type=None, equality=None, ordering=None, substrings=None, syntax=None, syntax_length=None,
             single_value=False, collective=False, no_user_modification=False, usage="userApplications")  # fmt: skip
    for kw, f in (("SUP", "super_type"), ("EQUALITY", "equality"), ("ORDERING", "ordering"), ("SUBSTR", "substrings")):
        if p.opt(kw):
            p.sp()
            r[f] = p.oid()
    if p.opt("SYNTAX"):
        p.sp()
        quoted = p.peek("'")  # the Active Directory variant: SYNTAX 'oid'
        if quoted:
            p.lit("'")
        r["syntax"] = p.numericoid()
        if p.peek("{"):
            p.lit("{")
            r["syntax_length"] = int(p.rx(NUMBER))
            p.lit("}")
        if quoted:
            p.lit("'")
    for kw, f in (("SINGLE-VALUE", "single_value"), ("COLLECTIVE", "collective"), ("NO-USER-MODIFICATION", "no_user_modification")):
        if p.opt(kw):
            r[f] = True
    if p.opt("USAGE"):
        p.sp()
        r["usage"] = p.rx("userApplications|directoryOperation|distributedOperation|dSAOperation")
    return _tail(p, r, whole)


def parse_dcr(s: str, whole: bool = True) -> t.Dict[str, t.Any]:
    p = P(s)
    r = _head(p)
    r.update(aux=[], must=[], may=[], never=[])
    for kw, f in (("AUX", "aux"), ("MUST", "must"), ("MAY", "may"), ("NOT", "never")):
        if p.opt(kw):
            p.sp()
            r[f] = p.oids()
    return _tail(p, r, whole)


PARSERS = {"oc": parse_oc, "at": parse_at, "dcr": parse_dcr}


def selftest() -> int:
    n = 0
    # RFC 4512 / RFC 4519 definitions
    r = parse_oc("( 2.5.6.6 NAME 'person' SUP top STRUCTURAL MUST ( sn $ cn ) MAY ( userPassword $ telephoneNumber $ seeAlso $ description ) )")
    assert r["names"] == ["person"] and r["super_types"] == ["top"] and r["must"] == ["sn", "cn"] and len(r["may"]) == 4 and r["kind"] == "STRUCTURAL"
    r = parse_at("( 2.5.4.3 NAME 'cn' SUP name )")
    assert r["super_type"] == "name" and r["names"] == ["cn"]
    r = parse_at("( 2.5.18.1 NAME 'createTimestamp' EQUALITY generalizedTimeMatch ORDERING generalizedTimeOrderingMatch SYNTAX 1.3.6.1.4.1.1466.115.121.1.24 SINGLE-VALUE NO-USER-MODIFICATION USAGE directoryOperation )")
    assert r["usage"] == "directoryOperation" and r["single_value"] and r["no_user_modification"] and r["syntax"].endswith(".24")
    r = parse_at("( 2.5.4.41 NAME 'name' EQUALITY caseIgnoreMatch SUBSTR caseIgnoreSubstringsMatch SYNTAX 1.3.6.1.4.1.1466.115.121.1.15{32768} )")
    assert r["syntax_length"] == 32768
    r = parse_at("( 1.2.840.113556.1.4.221 NAME 'sAMAccountName' SYNTAX '1.3.6.1.4.1.1466.115.121.1.15' SINGLE-VALUE )")
    assert r["syntax"] == "1.3.6.1.4.1.1466.115.121.1.15" and r["single_value"]
    r = parse_dcr("( 2.5.6.4 DESC 'content rule for organization' NOT ( x121Address $ telexNumber ) )")
    assert r["never"] == ["x121Address", "telexNumber"] and r["description"] == "content rule for organization"
    r = parse_oc("(1.2 DESC 'it\\27s a \\5c and \\5C'  X-ORIGIN   'RFC 4512'   X-a_b-c ( 'x'  'y' ) )")
    assert r["description"] == "it's a \\ and \\" and r["extensions"] == {"ORIGIN": ["RFC 4512"], "a_b-c": ["x", "y"]}
    n += 7
    for bad in ["", "(", "( 1 )", "( 1.2", "( 1.2 NAME cn )", "( 1.2 DESC '' )", "( 1.2 DESC 'a\\zz' )", "( 1.2 NAME 'cn'DESC 'x' )", "( 1.2 MUST ( a b ) )",
                "( 1.2 SUP )", "( 1.2 X-A )", "( 01.2 )", "( 1.2 NAME ( 'a''b' ) )", "( 1.2 ) x"]:  # fmt: skip
        try:
            parse_oc(bad)
        except Bad:
            n += 1
        else:
            raise AssertionError(f"reference accepted {bad!r}")
    return n
