"""setup_cmd: pure-Python self-test of the reference models, so that a broken oracle is noticed
before it is believed.  Nothing is built; exit 0 means the framework is usable."""
from __future__ import annotations

import glob
import json
import os
import subprocess
import sys

sys.path.insert(0, os.environ.get("VERIF_REPO_SRC", "/repo/src"))
ROOT = os.path.dirname(os.path.dirname(os.path.abspath(__file__)))


def main() -> int:
    from vf.ref import ber
    from vf.ref import ldap as R

    n = 0
    # 1. BER layer: identifier/length arithmetic round-trips through its own parser
    for cls in range(4):
        for cons in (False, True):
            for num in (0, 1, 30, 31, 32, 127, 128, 16383, 16384, 2**21, 2**35):
                for ln in (0, 1, 127, 128, 255, 256, 65535, 65536):
                    node = ber.Node(cls, cons, num, None if cons else b"x" * ln, [] if cons else None)
                    b = ber.encode(node)
                    back, end = ber.parse_one(b, 0, True)
                    assert end == len(b) and (back.cls, back.constructed, back.num) == (cls, cons, num), (cls, cons, num, ln)
                    n += 1
    for v in [0, 1, -1, 127, 128, -128, -129, 255, 256, -256, -257, 2**31 - 1, -(2**31), 2**64, -(2**64), -65536]:
        assert ber.int_value(ber.int_content(v)) == v
        n += 1
    assert ber.int_content(-65536) == b"\xff\x00\x00" and ber.int_content(128) == b"\x00\x80" and ber.int_content(-128) == b"\x80"
    # 2. strictness really is strict
    for bad in ("30810100", "3003020100", "300602020001" + "4200", "30050201006200", "30060201000101" + "01"):
        try:
            R.decode_message(bytes.fromhex(bad), strict=True)
        except ber.BerError:
            n += 1
        else:
            raise AssertionError(f"strict decoder accepted {bad}")
    assert R.decode_message(bytes.fromhex("30050201004200"))["protocolOp"] == ("unbindRequest", None)
    # 3. the ten captured peer payloads of the repository decode leniently, and re-encode/decode to themselves
    files = sorted(glob.glob("/repo/tests/data/*"))
    for f in files:
        data = open(f, "rb").read()
        v = R.decode_message(data, strict=False)
        again = R.decode_message(ber.encode(R.encode_message(v)), strict=True)
        assert again == v, f
        n += 1
    # 4. hand-checked RFC 4511 example: bind request, version 3, anonymous simple bind
    v = R.decode_message(bytes.fromhex("300c020101600702010304008000"))
    assert v == {"messageID": 1, "protocolOp": ("bindRequest", {"version": 3, "name": b"", "authentication": ("simple", b"")}), "controls": None}
    # 5. filter / schema references on the RFC's own examples
    try:
        from vf.ref import filt

        n += filt.selftest()
    except ImportError:
        pass
    try:
        from vf.ref import schema as refschema

        n += refschema.selftest()
    except ImportError:
        pass
    try:
        from vf.ref import rxnfa

        n += rxnfa.selftest()
    except ImportError:
        pass
    # 6. MANIFEST validates (when the tooling interpreter with jsonschema is present)
    man = os.path.join(ROOT, "MANIFEST.json")
    if os.path.exists(man) and os.path.exists("/root/.vp/MANIFEST.schema.json"):
        code = (
            "import json,jsonschema;"
            f"jsonschema.validate(json.load(open({man!r})), json.load(open('/root/.vp/MANIFEST.schema.json')));print('manifest ok')"
        )
        try:
            subprocess.run(["python3-vt", "-c", code], check=True, timeout=60)
        except FileNotFoundError:
            pass
    print(f"selftest ok: {n} reference self-checks, {len(files)} captured payloads")
    return 0


if __name__ == "__main__":
    sys.exit(main())
