"""CLI:  python -m vf.run <Cnn> --tier quick|thorough   |   --replay <file>

exit 0  property held on everything explored (known findings are printed)
exit 1  at least one unlisted violation (``VIOLATION property=.. replay=..``)
exit 2  the harness itself failed -- never reported as a pass
"""
from __future__ import annotations

import argparse
import importlib
import json
import os
import sys
import traceback

REPO_SRC = os.environ.get("VERIF_REPO_SRC", "/repo/src")


def _bootstrap() -> None:
    if os.environ.get("PYTHONHASHSEED") != "0":
        env = dict(os.environ)
        env["PYTHONHASHSEED"] = "0"
        env["SANSLDAP_VERIF"] = "1"
        os.execve(sys.executable, [sys.executable, "-m", "vf.run"] + sys.argv[1:], env)
    sys.path.insert(0, REPO_SRC)
    sys.setrecursionlimit(1000)  # the interpreter default; stated so depth families are reproducible


def main() -> int:
    ap = argparse.ArgumentParser()
    ap.add_argument("prop")
    ap.add_argument("--tier", default=os.environ.get("VERIF_TIER", "quick"), choices=["quick", "thorough"])
    ap.add_argument("--replay")
    args = ap.parse_args()
    _bootstrap()
    from vf.engine.evid import Ctx, unjson

    prop = args.prop.upper()
    mod = importlib.import_module(f"vf.checks.{prop.lower()}")
    import sansldap

    if not os.path.realpath(sansldap.__file__).startswith(os.path.realpath(REPO_SRC)):
        print(f"HARNESS-ERROR: sansldap imported from {sansldap.__file__}, expected under {REPO_SRC}")
        return 2
    if args.replay:
        with open(args.replay) as fh:
            rec = json.load(fh)
        ok, text = mod.replay(unjson(rec["case"]), rec.get("key"))
        print(text)
        print("REPLAY:", "property holds on this case" if ok else f"violation reproduced ({rec.get('key')})")
        return 0 if ok else 1
    seed = int(os.environ.get("VERIF_SEED", "0") or 0)
    ctx = Ctx(prop, args.tier, seed)
    mod.run(ctx)
    return ctx.finish()


if __name__ == "__main__":
    try:
        rc = main()
    except SystemExit:
        raise
    except BaseException:
        traceback.print_exc()
        print("HARNESS-ERROR: check did not complete")
        rc = 2
    sys.exit(rc)
