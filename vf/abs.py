"""Abstraction functions: sansldap objects -> the plain abstract values the references use.

Only public dataclass fields are read.  ``absmsg`` yields exactly the shape
``vf.ref.ldap.decode(LDAPMessage, ...)`` yields, so the two can be compared with ``==``.
``src`` renders any sansldap value as a Python expression that rebuilds it (used in replay
files and samples); ``freeze`` is the canonical form of a session for state hashing.
"""
from __future__ import annotations

import dataclasses
import enum
import typing as t

import sansldap
import sansldap.schema as schema


def lib(name: str) -> t.Any:
    """A name of the library that is not re-exported by the package (PackingOptions, unpack_ldap_message,
    FilterSyntaxError): looked up in whichever sansldap module defines it, so that moving code between files is harmless."""
    import importlib
    import pkgutil
    import sys

    if hasattr(sansldap, name):
        return getattr(sansldap, name)
    for info in pkgutil.iter_modules(sansldap.__path__):
        try:
            importlib.import_module(f"sansldap.{info.name}")
        except Exception:  # noqa: BLE001, S112
            continue
    for n, m in sorted(sys.modules.items()):
        if n.startswith("sansldap.") and hasattr(m, name):
            return getattr(m, name)
    raise ImportError(f"sansldap defines no {name}")


class _M:
    def __getattr__(self, name: str) -> t.Any:
        return lib(name)


M = _M()

ENC = "utf-8"


def _s(x: str) -> bytes:
    return x.encode(ENC)


def absfilter(f: t.Any) -> t.Any:
    if isinstance(f, sansldap.FilterAnd):
        return ("and", [absfilter(x) for x in f.filters])
    if isinstance(f, sansldap.FilterOr):
        return ("or", [absfilter(x) for x in f.filters])
    if isinstance(f, sansldap.FilterNot):
        return ("not", absfilter(f.filter))
    for cls, name in (
        (sansldap.FilterEquality, "equalityMatch"),
        (sansldap.FilterGreaterOrEqual, "greaterOrEqual"),
        (sansldap.FilterLessOrEqual, "lessOrEqual"),
        (sansldap.FilterApproxMatch, "approxMatch"),
    ):
        if isinstance(f, cls):
            return (name, {"attributeDesc": _s(f.attribute), "assertionValue": _b(f.value)})
    if isinstance(f, sansldap.FilterPresent):
        return ("present", _s(f.attribute))
    if isinstance(f, sansldap.FilterSubstrings):
        subs = []
        if f.initial is not None:
            subs.append(("initial", _b(f.initial)))
        subs += [("any", _b(a)) for a in f.any]
        if f.final is not None:
            subs.append(("final", _b(f.final)))
        return ("substrings", {"type": _s(f.attribute), "substrings": subs})
    if isinstance(f, sansldap.FilterExtensibleMatch):
        return (
            "extensibleMatch",
            {
                "matchingRule": None if f.rule is None else _s(f.rule),
                "type": None if f.attribute is None else _s(f.attribute),
                "matchValue": _b(f.value),
                "dnAttributes": _bool(f.dn_attributes),
            },
        )
    raise TypeError(f"no RFC 4511 abstraction for filter {type(f).__name__}")


class BadField(Exception):
    """A field of a sansldap value is not the kind of value its type promises."""

    def __init__(self, tag: str, msg: str) -> None:
        super().__init__(msg)
        self.tag = tag


NotBytes = BadField


def _b(v: t.Any) -> bytes:
    # decoded octet strings must be self-contained ``bytes`` -- ``memoryview == bytes`` is True in
    # Python and would hide an aliasing bug, so the type is checked, not just the value.
    if type(v) is not bytes:
        raise BadField("octets-not-bytes", f"octet string field holds {type(v).__name__}, not bytes")
    return v


def _bool(v: t.Any) -> bool:
    if type(v) is not bool:
        raise BadField("bool-not-bool", f"boolean field holds {type(v).__name__}")
    return v


def abscontrol(c: t.Any, options: t.Any = None) -> t.Dict[str, t.Any]:
    options = options or sansldap.ControlOptions()
    v = c.get_value(options)
    return {
        "controlType": _s(c.control_type),
        "criticality": _bool(c.critical),
        "controlValue": None if v is None else _b(v),
    }


def _code(c: t.Any) -> int:
    v = c.value if isinstance(c, enum.Enum) else c
    # the integer a result code compares / hashes / converts as must be the code it was built from
    if int(c) != v or not (c == v):
        raise BadField("result-code-int-value", f"result code built from {v} has integer value {int(c)} (so it compares equal to code {int(c)})")
    return v


def _result(r: t.Any) -> t.Dict[str, t.Any]:
    return {
        "resultCode": _code(r.result_code),
        "matchedDN": _s(r.matched_dn),
        "diagnosticMessage": _s(r.diagnostics_message),
        "referral": None if r.referrals is None else [_s(u) for u in r.referrals],
    }


def absauth(a: t.Any) -> t.Any:
    if isinstance(a, sansldap.SimpleCredential):
        return ("simple", _s(a.password))
    if isinstance(a, sansldap.SaslCredential):
        return ("sasl", {"mechanism": _s(a.mechanism), "credentials": None if a.credentials is None else _b(a.credentials)})
    raise TypeError(f"no RFC 4511 abstraction for credential {type(a).__name__}")


def absop(m: t.Any) -> t.Any:
    if isinstance(m, sansldap.BindRequest):
        return ("bindRequest", {"version": m.version, "name": _s(m.name), "authentication": absauth(m.authentication)})
    if isinstance(m, sansldap.BindResponse):
        d = _result(m.result)
        d["serverSaslCreds"] = None if m.server_sasl_creds is None else _b(m.server_sasl_creds)
        return ("bindResponse", d)
    if isinstance(m, sansldap.UnbindRequest):
        return ("unbindRequest", None)
    if isinstance(m, sansldap.SearchRequest):
        return (
            "searchRequest",
            {
                "baseObject": _s(m.base_object),
                "scope": int(m.scope),
                "derefAliases": int(m.deref_aliases),
                "sizeLimit": m.size_limit,
                "timeLimit": m.time_limit,
                "typesOnly": _bool(m.types_only),
                "filter": absfilter(m.filter),
                "attributes": [_s(a) for a in m.attributes],
            },
        )
    if isinstance(m, sansldap.SearchResultEntry):
        return (
            "searchResEntry",
            {"objectName": _s(m.object_name), "attributes": [{"type": _s(a.name), "vals": [_b(v) for v in a.values]} for a in m.attributes]},
        )
    if isinstance(m, sansldap.SearchResultDone):
        return ("searchResDone", _result(m.result))
    if isinstance(m, sansldap.SearchResultReference):
        return ("searchResRef", [_s(u) for u in m.uris])
    if isinstance(m, sansldap.ExtendedRequest):
        return ("extendedReq", {"requestName": _s(m.name), "requestValue": None if m.value is None else _b(m.value)})
    if isinstance(m, sansldap.ExtendedResponse):
        d = _result(m.result)
        d["responseName"] = None if m.name is None else _s(m.name)
        d["responseValue"] = None if m.value is None else _b(m.value)
        return ("extendedResp", d)
    raise TypeError(type(m).__name__)


def absmsg(m: t.Any, options: t.Any = None) -> t.Dict[str, t.Any]:
    copts = options.control if options is not None else None
    return {
        "messageID": m.message_id,
        "protocolOp": absop(m),
        "controls": [abscontrol(c, copts) for c in m.controls] if m.controls else None,
    }


# ---------------------------------------------------------------------------------------
_NS: t.Dict[str, t.Any] = {}


def namespace() -> t.Dict[str, t.Any]:
    if not _NS:
        for k in dir(sansldap):
            if not k.startswith("_"):
                _NS[k] = getattr(sansldap, k)
        for k in schema.__all__:
            _NS[k] = getattr(schema, k)
        _NS["PackingOptions"] = M.PackingOptions
    return _NS


def src(o: t.Any) -> str:
    """A Python expression (over ``namespace()``) that rebuilds o."""
    if dataclasses.is_dataclass(o) and not isinstance(o, type):
        args = ", ".join(f"{f.name}={src(getattr(o, f.name))}" for f in dataclasses.fields(o) if f.init)
        return f"{type(o).__name__}({args})"
    if isinstance(o, enum.Enum):
        return f"{type(o).__name__}({o.value!r})"
    if isinstance(o, list):
        return "[" + ", ".join(src(x) for x in o) + "]"
    if isinstance(o, tuple):
        return "(" + ", ".join(src(x) for x in o) + ("," if len(o) == 1 else "") + ")"
    if isinstance(o, dict):
        return "{" + ", ".join(f"{src(k)}: {src(v)}" for k, v in o.items()) + "}"
    if isinstance(o, (bytearray, memoryview)):
        return repr(bytes(o))
    return repr(o)


def unsrc(s: str, extra: t.Optional[t.Dict[str, t.Any]] = None) -> t.Any:
    ns = dict(namespace())
    if extra:
        ns.update(extra)
    return eval(s, {"__builtins__": {}}, ns)  # noqa: S307 - replay files are produced by this harness


Path = t.Tuple[t.Any, ...]
_NOISE: t.Dict[type, t.FrozenSet[Path]] = {}


def _freeze(o: t.Any, skip: t.FrozenSet[Path], path: Path) -> t.Any:
    if isinstance(o, (bytes, str, int, float, type(None), bool)):
        return o
    if isinstance(o, enum.Enum):
        return (type(o).__qualname__, o.value)
    if isinstance(o, (bytearray, memoryview)):
        return bytes(o)
    if isinstance(o, (set, frozenset)):
        return ("set",) + tuple(sorted((_freeze(x, skip, path + ("*",)) for x in o), key=repr))
    if isinstance(o, (list, tuple)) or type(o).__name__ == "deque":
        return tuple(_freeze(x, skip, path + (i,)) for i, x in enumerate(o))
    if isinstance(o, dict):
        return tuple(sorted(((k, _freeze(v, skip, path + (k,))) for k, v in o.items() if not (skip and path + (k,) in skip)), key=repr))
    if isinstance(o, type):
        return o.__qualname__
    if isinstance(o, sansldap.LDAPSession) and not path:
        skip = session_noise(type(o))
    d = attrs(o) if (hasattr(o, "__dict__") or hasattr(type(o), "__slots__")) else None
    if d is not None:
        return (type(o).__qualname__,) + _freeze(d, skip, path)
    return repr(o)


def freeze(o: t.Any) -> t.Any:
    """Structural canonical form (finer than observational equivalence, hence sound to merge on).

    For a session object, the attribute paths that differ between two independent runs of the *same* history
    (instance counters taken from a global, timestamps, ...) are left out: by construction they carry nothing
    a history determines, and keeping them would only stop equal states from merging.
    """
    return _freeze(o, frozenset(), ())


def _diff_paths(a: t.Any, b: t.Any, path: Path, out: t.Set[Path]) -> None:
    if a == b:
        return
    if isinstance(a, tuple) and isinstance(b, tuple) and len(a) == len(b) and a and isinstance(a[0], str) and a[0] == b[0] and len(a) == 2 and False:
        return
    # frozen objects are (qualname, (k, v), (k, v)...) ; frozen dicts are ((k, v), ...)
    da, db = _as_items(a), _as_items(b)
    if da is not None and db is not None and set(da) == set(db):
        for k in da:
            _diff_paths(da[k], db[k], path + (k,), out)
        return
    out.add(path)


def _as_items(x: t.Any) -> t.Optional[t.Dict[t.Any, t.Any]]:
    if not isinstance(x, tuple):
        return None
    body = x[1:] if x and isinstance(x[0], str) and all(isinstance(e, tuple) and len(e) == 2 for e in x[1:]) else x
    if all(isinstance(e, tuple) and len(e) == 2 and isinstance(e[0], (str, int)) for e in body) and body:
        try:
            return dict(body)
        except (TypeError, ValueError):
            return None
    return None


def _calibration_runs(cls: type) -> t.List[t.Callable[[], t.Any]]:
    """Short deterministic histories; each is run twice on independent objects and the two results are diffed."""
    import sansldap as L

    def fresh() -> t.Any:
        return cls()

    def traffic() -> t.Any:
        s = cls()
        try:
            if isinstance(s, L.LDAPClient):
                s.search_request()
                s.data_to_send(3)
                s.data_to_send()
                s.receive(b"\x30\x0c\x02\x01\x01\x65")  # half a SearchResultDone
                try:
                    s.bind_simple()  # refused: a search is outstanding
                except L.LDAPError:
                    pass
            else:
                s.receive(b"\x30\x0c\x02\x01\x01\x77\x07\x80\x03\x31\x2e\x32")  # ExtendedRequest 1.2, id 1... (partial or whole)
                try:
                    s.search_result_done(9)  # refused: unknown id
                except L.LDAPError:
                    pass
                s.data_to_send()
        except L.LDAPError:
            pass
        return s

    def closed() -> t.Any:
        s = cls()
        try:
            s.receive(b"\x04\x00")
        except L.LDAPError:
            pass
        try:
            s.receive(b"\x04\x00")
        except L.LDAPError:
            pass
        return s

    return [fresh, traffic, closed]


def session_noise(cls: type) -> t.FrozenSet[Path]:
    got = _NOISE.get(cls)
    if got is None:
        _NOISE[cls] = frozenset()  # (re-entrancy: the diff below calls _freeze)
        out: t.Set[Path] = set()
        try:
            for run in _calibration_runs(cls):
                a, b = run(), run()
                _diff_paths(_freeze(attrs(a), frozenset(), ()), _freeze(attrs(b), frozenset(), ()), (), out)
        except Exception:  # noqa: BLE001 - a class that cannot be built without arguments has no calibration
            out = set()
        got = _NOISE[cls] = frozenset(out)
    return got


def attrs(o: t.Any) -> t.Dict[str, t.Any]:
    """Instance attributes, whether the class keeps them in __dict__ or in __slots__."""
    d = dict(getattr(o, "__dict__", {}))
    for klass in type(o).__mro__:
        for name in getattr(klass, "__slots__", ()):
            if name not in ("__dict__", "__weakref__") and hasattr(o, name):
                d.setdefault(name, getattr(o, name))
    return d


def public_view(session: t.Any) -> t.Any:
    """What a caller can see of a session without calling anything: its public instance attributes."""
    noise = session_noise(type(session)) if isinstance(session, sansldap.LDAPSession) else frozenset()
    return tuple(sorted(((k, freeze(v)) for k, v in attrs(session).items() if not k.startswith("_") and (k,) not in noise), key=repr))


def protocol_view(session: t.Any) -> t.Any:
    """Canonical form of everything except raw byte buffers (what draining may legitimately change)."""
    return tuple(sorted(((k, freeze(v)) for k, v in attrs(session).items() if not isinstance(v, (bytes, bytearray, memoryview))), key=repr))
