"""C07 -- BER primitives agree with an arithmetic oracle in both directions.

Oracle: Python integer arithmetic (int.to_bytes / from_bytes signed, base-128 tag numbers,
base-256 lengths) via vf.ref.ber, which shares no code with sansldap.asn1.
"""
from __future__ import annotations

import itertools
import typing as t

from sansldap import asn1

from vf.checks import common as K
from vf.engine import evid, par
from vf.ref import ber

SUFFIXES = [b"", b"\x00", b"\x04\x01z"]


def _reader(data: bytes) -> asn1.ASN1Reader:
    return asn1.ASN1Reader(data)


def _rest(r: asn1.ASN1Reader) -> bytes:
    return r.get_remaining_data()


def check_int_write(v: int, enumerated: bool = False) -> t.Optional[t.Tuple[str, str]]:
    w = asn1.ASN1Writer()
    tagb = 0x0A if enumerated else 0x02
    what = "ENUMERATED" if enumerated else "INTEGER"
    try:
        (w.write_enumerated if enumerated else w.write_integer)(v)
        got = bytes(w.get_data())
    except BaseException as e:
        return (f"int-write-raises:{what}:{K.exc_key(e)}", f"writing {what} {v} raised {type(e).__name__}: {e}")
    content = ber.int_content(v)
    exp = bytes([tagb]) + ber.enc_len(len(content)) + content
    if got != exp:
        return (f"int-write-differs:{what}:{'neg' if v < 0 else 'pos'}", f"{what} {v} written as {got.hex()[:60]}, minimal two's complement is {exp.hex()[:60]}")
    for sfx in SUFFIXES[:2]:
        r = _reader(exp + sfx)
        try:
            back = r.read_enumerated(int) if enumerated else r.read_integer()
        except BaseException as e:
            return (f"int-read-raises:{K.exc_key(e)}", f"reading {what} {exp.hex()[:60]} (= {v}) raised {type(e).__name__}: {e}")
        if back != v or type(back) is not int:
            return (f"int-read-differs:{'neg' if v < 0 else 'pos'}", f"{exp.hex()[:60]} read as {back}, denotes {v}")
        if _rest(r) != sfx:
            return ("int-read-consumed", f"reader consumed beyond the INTEGER {exp.hex()[:40]}")
    return None


def check_int_content(content: bytes, with_header: bool) -> t.Optional[t.Tuple[str, str]]:
    exp = int.from_bytes(content, "big", signed=True)
    data = b"\x02" + ber.enc_len(len(content)) + content + b"\x00"
    r = _reader(data)
    try:
        if with_header:
            back = r.read_integer(header=r.peek_header())
        else:
            back = r.read_integer()
    except BaseException as e:
        shape = "neg-trailing-zero-octets" if content[0] & 0x80 and content.endswith(b"\x00") else "other"
        return (f"int-content-raises:{shape}:{K.exc_key(e)}", f"INTEGER contents {content.hex()} (= {exp}) raised {type(e).__name__}: {e}")
    if back != exp:
        return (f"int-content-differs:{'neg' if exp < 0 else 'pos'}", f"INTEGER contents {content.hex()} read as {back}, denote {exp}")
    if _rest(r) != b"\x00":
        return ("int-content-consumed", f"reader consumed beyond INTEGER contents {content.hex()}")
    return None


def check_tag(cls: int, constructed: bool, num: int, content: bytes = b"v") -> t.Optional[t.Tuple[str, str]]:
    tag = asn1.ASN1Tag(asn1.TagClass(cls), asn1.TypeTagNumber(num) if cls == 0 else num, constructed)
    w = asn1.ASN1Writer()
    try:
        w.write_octet_string(content, tag=tag)
        got = bytes(w.get_data())
    except BaseException as e:
        return (f"tag-write-raises:{K.exc_key(e)}", f"writing tag {cls}/{num}/{constructed} raised {type(e).__name__}: {e}")
    exp = ber.enc_ident(cls, constructed, num) + bytes([len(content)]) + content
    if got != exp:
        return (f"tag-write-differs:{'high' if num >= 31 else 'low'}", f"tag {cls}/{num}/{constructed} written as {got.hex()}, expected {exp.hex()}")
    r = _reader(exp + b"\x04\x01z")
    try:
        h = r.peek_header()
        v = r.read_octet_string(tag=tag)
    except BaseException as e:
        return (f"tag-read-raises:{K.exc_key(e)}", f"reading tag {exp.hex()} raised {type(e).__name__}: {e}")
    if (int(h.tag.tag_class), int(h.tag.tag_number), bool(h.tag.is_constructed)) != (cls, num, constructed) or h.length != len(content) or h.tag_length != len(exp) - len(content):
        return (f"tag-read-differs:{'high' if num >= 31 else 'low'}", f"tag {exp.hex()} read back as {h}")
    if v != content or _rest(r) != b"\x04\x01z":
        return ("tag-read-consumed", f"value after tag {exp.hex()} read as {v!r}")
    return None


def check_tag_len(cls: int, constructed: bool, num: int, n: int) -> t.Optional[t.Tuple[str, str]]:
    tag = asn1.ASN1Tag(asn1.TagClass(cls), num, constructed)
    content = b"y" * n
    w = asn1.ASN1Writer()
    try:
        w.write_octet_string(content, tag=tag)
        got = bytes(w.get_data())
    except BaseException as e:
        return (f"taglen-write-raises:{K.exc_key(e)}", f"writing tag {cls}/{num} with {n} octets raised {type(e).__name__}: {e}")
    exp = ber.enc_ident(cls, constructed, num) + ber.enc_len(n) + content
    if got != exp:
        return ("taglen-write-differs", f"tag {cls}/{num}/{constructed} with {n} octets written as {got[:12].hex()}.., expected {exp[:12].hex()}..")
    r = _reader(exp + b"\x04\x01z")
    try:
        h = r.peek_header()
        v = r.read_octet_string(tag=tag)
    except BaseException as e:
        return (f"taglen-read-raises:{K.exc_key(e)}", f"reading tag {cls}/{num} with {n} octets raised {type(e).__name__}: {e}")
    if h.length != n or int(h.tag.tag_number) != num or h.tag_length != len(exp) - n or v != content or _rest(r) != b"\x04\x01z":
        return ("taglen-read-differs", f"tag {cls}/{num}/{constructed} with {n} octets read back as {h}, {len(v)} octets")
    return None


def check_views(n: int) -> t.Optional[t.Tuple[str, str]]:
    """The same octets handed over as memoryviews of other item formats (signed char, char, an array('b')) and as a slice of a
    larger buffer: what a reader returns depends on the octets, not on how the caller's buffer names them."""
    import array

    content = bytes((i * 37 + 200) % 256 for i in range(n))
    exp = b"\x04" + ber.enc_len(n) + content + b"\x02\x02\x00\x80"
    views = {
        "cast-b": lambda d: memoryview(d).cast("b"),
        "cast-c": lambda d: memoryview(d).cast("c"),
        "array-b": lambda d: memoryview(array.array("b", [x - 256 if x > 127 else x for x in d])),
        "slice-of-larger": lambda d: memoryview(b"\xff\xff" + d + b"\xff")[2:-1],
        "bytearray": lambda d: bytearray(d),
    }
    for name, mk in views.items():
        try:
            r = asn1.ASN1Reader(mk(exp))
            v = r.read_octet_string()
            i = r.read_integer()
        except BaseException as e:
            return (f"view-read-raises:{name}:{type(e).__name__}", f"reading a {n}-octet string from a {name} buffer raised {type(e).__name__}: {e}")
        if bytes(v) != content or i != 128 or r:
            return (f"view-read-differs:{name}", f"a {n}-octet string read from a {name} buffer came back as {len(v)} octets, then {i}")
    return None


def check_length(n: int) -> t.Optional[t.Tuple[str, str]]:
    content = b"x" * n
    w = asn1.ASN1Writer()
    try:
        w.write_octet_string(content)
        got = bytes(w.get_data())
    except BaseException as e:
        return (f"len-write-raises:{K.exc_key(e)}", f"writing a {n}-octet string raised {type(e).__name__}: {e}")
    exp = b"\x04" + ber.enc_len(n) + content
    if got != exp:
        return ("len-write-differs", f"length {n} written as {got[:8].hex()}.., expected {exp[:8].hex()}..")
    r = _reader(exp + b"\x00")
    try:
        h = r.peek_header()
        v = r.read_octet_string(header=h)
    except BaseException as e:
        return (f"len-read-raises:{K.exc_key(e)}", f"reading a {n}-octet string raised {type(e).__name__}: {e}")
    if h.length != n or h.tag_length != len(exp) - n or v != content or type(v) is not bytes or _rest(r) != b"\x00":
        return ("len-read-differs", f"length {n} read back as header {h}, {len(v)} octets")
    return None


def check_bool_octet(o: int) -> t.Optional[t.Tuple[str, str]]:
    r = _reader(bytes([1, 1, o, 0x55]))
    try:
        v = r.read_boolean()
    except BaseException as e:
        return (f"bool-read-raises:{K.exc_key(e)}", f"BOOLEAN octet {o:02x} raised {type(e).__name__}")
    if v is not (o != 0) or _rest(r) != b"\x55":
        return ("bool-read-differs", f"BOOLEAN octet {o:02x} read as {v!r}")
    return None


def check_bool_write(v: bool) -> t.Optional[t.Tuple[str, str]]:
    w = asn1.ASN1Writer()
    w.write_boolean(v)
    got = bytes(w.get_data())
    exp = b"\x01\x01" + (b"\xff" if v else b"\x00")
    if got != exp:
        return ("bool-write-differs", f"BOOLEAN {v} written as {got.hex()}")
    return None


def check_octets(content: bytes) -> t.Optional[t.Tuple[str, str]]:
    w = asn1.ASN1Writer()
    w.write_octet_string(content)
    got = bytes(w.get_data())
    exp = b"\x04" + ber.enc_len(len(content)) + content
    if got != exp:
        return ("octets-write-differs", f"octet string {content[:8].hex()} written as {got[:12].hex()}")
    for sfx in SUFFIXES:
        r = _reader(exp + sfx)
        try:
            v = r.read_octet_string()
        except BaseException as e:
            return (f"octets-read-raises:{K.exc_key(e)}", f"octet string {content[:8].hex()} raised {type(e).__name__}")
        if v != content or type(v) is not bytes or _rest(r) != sfx:
            return ("octets-read-differs", f"octet string {content[:8].hex()} read as {v[:8]!r}")
    return None


# ---- nestings -----------------------------------------------------------------------------
LEAVES = [("int", -129), ("bool", True), ("octets", b"ab"), ("enum", 5)]


def trees(depth: int, pool_cap: t.Optional[int] = None) -> t.List[t.Any]:
    cur: t.List[t.Any] = list(LEAVES)
    for _ in range(depth):
        pool = cur if pool_cap is None or len(cur) <= pool_cap else cur[:pool_cap]
        nxt: t.List[t.Any] = list(LEAVES)
        for kind in ("seq", "set"):
            nxt.append((kind, ()))
            for a in pool:
                nxt.append((kind, (a,)))
            for a, b in itertools.product(pool, repeat=2):
                nxt.append((kind, (a, b)))
        cur = nxt
    return cur


def _write(w: asn1.ASN1Writer, tr: t.Any) -> None:
    k, v = tr
    if k == "int":
        w.write_integer(v)
    elif k == "enum":
        w.write_enumerated(v)
    elif k == "bool":
        w.write_boolean(v)
    elif k == "octets":
        w.write_octet_string(v)
    else:
        with (w.push_sequence() if k == "seq" else w.push_set()) as inner:
            for c in v:
                _write(inner, c)


def _node(tr: t.Any) -> ber.Node:
    k, v = tr
    if k == "int":
        return ber.Node(0, False, 2, ber.int_content(v))
    if k == "enum":
        return ber.Node(0, False, 10, ber.int_content(v))
    if k == "bool":
        return ber.Node(0, False, 1, b"\xff" if v else b"\x00")
    if k == "octets":
        return ber.Node(0, False, 4, v)
    return ber.Node(0, True, 16 if k == "seq" else 17, None, [_node(c) for c in v])


def _read(r: asn1.ASN1Reader, tr: t.Any) -> t.Any:
    k, v = tr
    if k == "int":
        return (k, r.read_integer())
    if k == "enum":
        return (k, r.read_enumerated(int))
    if k == "bool":
        return (k, r.read_boolean())
    if k == "octets":
        return (k, r.read_octet_string())
    inner = r.read_sequence() if k == "seq" else r.read_set()
    out = tuple(_read(inner, c) for c in v)
    if inner:
        raise ValueError("inner reader not exhausted after reading all children")
    return (k, out)


def check_tree(tr: t.Any) -> t.Optional[t.Tuple[str, str]]:
    w = asn1.ASN1Writer()
    try:
        _write(w, tr)
        got = bytes(w.get_data())
    except BaseException as e:
        return (f"nest-write-raises:{K.exc_key(e)}", f"writing {tr!r} raised {type(e).__name__}: {e}")
    exp = ber.encode(_node(tr))
    if got != exp:
        return ("nest-write-differs", f"{tr!r} written as {got.hex()[:80]}, expected {exp.hex()[:80]}")
    try:
        again = bytes(w.get_data())
    except BaseException as e:
        return (f"get-data-again-raises:{K.exc_key(e)}", f"a second get_data() raised {type(e).__name__}: {e}")
    if again != exp:
        return ("get-data-not-repeatable", f"a second get_data() on the same writer returned {again.hex()[:60]} ({len(again)} octets), the first {len(exp)} octets")
    r = _reader(exp + b"\x05\x00")
    try:
        back = _read(r, tr)
    except BaseException as e:
        return (f"nest-read-raises:{K.exc_key(e)}", f"reading {tr!r} back raised {type(e).__name__}: {e}")
    if back != tr or _rest(r) != b"\x05\x00":
        return ("nest-read-differs", f"{tr!r} read back as {back!r}")
    return None


def check_push_tag(method: str, cls: int, constructed: bool, num: int) -> t.Optional[t.Tuple[str, str]]:
    """push_sequence / push_set (and the _of aliases) with an explicit tag: the tag is written as given, in either form,
    and the value is read back with the same tag."""
    tag = asn1.ASN1Tag(asn1.TagClass(cls), asn1.TypeTagNumber(num) if cls == 0 else num, constructed)
    w = asn1.ASN1Writer()
    try:
        with getattr(w, method)(tag=tag) as inner:
            inner.write_integer(5)
        got = bytes(w.get_data())
    except BaseException as e:
        return (f"push-tag-write-raises:{method}:{K.exc_key(e)}", f"{method}(tag={cls}/{num}/{constructed}) raised {type(e).__name__}: {e}")
    exp = ber.enc_ident(cls, constructed, num) + b"\x03\x02\x01\x05"
    if got != exp:
        return (f"push-tag-write-differs:{method}:{'constructed' if constructed else 'primitive'}", f"{method}(tag={cls}/{num}/{constructed}) wrote {got.hex()}, expected {exp.hex()}")
    r = _reader(exp + b"\x04\x01z")
    try:
        h = r.peek_header()
        inner_r = (r.read_set if "set" in method else r.read_sequence)(tag=tag)
        v = inner_r.read_integer()
    except BaseException as e:
        return (f"push-tag-read-raises:{method}:{K.exc_key(e)}", f"reading {exp.hex()} back with tag {cls}/{num}/{constructed} raised {type(e).__name__}: {e}")
    if (int(h.tag.tag_class), int(h.tag.tag_number), bool(h.tag.is_constructed)) != (cls, num, constructed) or v != 5 or _rest(r) != b"\x04\x01z":
        return (f"push-tag-read-differs:{method}", f"{exp.hex()} read back as {h}, value {v}")
    return None


def check_forest(trs: t.Sequence[t.Any]) -> t.Optional[t.Tuple[str, str]]:
    """Many values one after the other through ONE writer and ONE reader."""
    w = asn1.ASN1Writer()
    try:
        for tr in trs:
            _write(w, tr)
        got = bytes(w.get_data())
    except BaseException as e:
        return (f"forest-write-raises:{K.exc_key(e)}", f"writing {len(trs)} values in a row raised {type(e).__name__}: {e}")
    exp = b"".join(ber.encode(_node(tr)) for tr in trs)
    if got != exp:
        return ("forest-write-differs", f"{len(trs)} values in a row written differently from the reference")
    # looking at the data written so far is not the end of the writer
    w2 = asn1.ASN1Writer()
    try:
        for i, tr in enumerate(trs[:40]):
            _write(w2, tr)
            if i % 3 == 0:
                w2.get_data()
        got2 = bytes(w2.get_data())
    except BaseException as e:
        return (f"forest-write-raises:{K.exc_key(e)}", f"writing with get_data() in between raised {type(e).__name__}: {e}")
    if got2 != b"".join(ber.encode(_node(tr)) for tr in trs[:40]):
        return ("get-data-between-writes-loses-data", f"values written before an intermediate get_data() are missing from the final data ({len(got2)} octets)")
    r = _reader(exp + b"\x05\x00")
    try:
        back = [_read(r, tr) for tr in trs]
    except BaseException as e:
        return (f"forest-read-raises:{K.exc_key(e)}", f"reading {len(trs)} values in a row from one reader raised {type(e).__name__}: {e}")
    if back != list(trs) or _rest(r) != b"\x05\x00":
        return ("forest-read-differs", f"{len(trs)} values in a row read back differently")
    return None


def big_shapes() -> t.List[t.Tuple[str, t.Any]]:
    """Beyond depth 3 / fan-out 2: wide (101..1500 children, constructed and primitive), deep (150, 300 levels), and many
    top-level values through one reader."""
    out: t.List[t.Tuple[str, t.Any]] = []
    kids = [("seq", ()), ("set", (("int", 1),)), ("int", -1), ("seq", (("octets", b"x"), ("set", ())))]
    for n in (101, 150, 300, 1500):
        for kind in ("seq", "set"):
            out.append((f"wide-{kind}-{n}", (kind, tuple(kids[i % 4] for i in range(n)))))
            out.append((f"wide-{kind}-of-seq-{n}", (kind, tuple(("seq", (("int", i),)) for i in range(n)))))
    for depth in (101, 150, 300):
        for kind in ("seq", "set", "mix"):
            tr: t.Any = ("int", 7)
            for i in range(depth):
                tr = ("seq" if kind == "seq" or (kind == "mix" and i % 2) else "set", (tr,))
            out.append((f"deep-{kind}-{depth}", tr))
    return out


# ---- driver -------------------------------------------------------------------------------
ALPHA6 = [0x00, 0x01, 0x7F, 0x80, 0xFE, 0xFF]
_CFG: t.Dict[str, t.Any] = {}


def _special_ints(kmax: int) -> t.List[int]:
    out = []
    for k in range(0, kmax + 1):
        for s in (1, -1):
            for d in (-1, 0, 1):
                out.append(s * (1 << k) + d)
    return out


def _tag_numbers() -> t.List[int]:
    extra = [2**14 + 1, 2**21 - 1, 2**21, 2**21 + 1, 2**28 - 1, 2**28, 2**28 + 1, 2**35, 2**64]
    return list(range(0, 16385)) + extra


def _work(job: t.Tuple[str, int, int]) -> evid.Local:
    fam, lo, hi = job
    loc = evid.Local()

    def rec(r: t.Optional[t.Tuple[str, str]], case: t.Any, ops: int = 2) -> None:
        loc.add("states")
        loc.add("transitions", ops)
        if r:
            loc.violation(r[0], r[1], case)

    if fam == "int-range":
        for v in range(lo, hi):
            rec(check_int_write(v), {"fam": "int", "v": v}, 3)
            if -300 <= v <= 300:
                rec(check_int_write(v, True), {"fam": "enum", "v": v}, 3)
    elif fam == "int-special":
        sp = _CFG["special"]
        for v in sp[lo:hi]:
            rec(check_int_write(v), {"fam": "int", "v": str(v)}, 3)
    elif fam == "content-all":
        n = _CFG["content_all_len"]
        for i in range(lo, hi):
            for ln in range(1, n + 1):
                if i < 256**ln:
                    c = i.to_bytes(ln, "big")
                    rec(check_int_content(c, bool(i & 1)), {"fam": "content", "hex": c.hex()}, 1)
    elif fam == "content-alpha":
        ln = lo
        for tup in itertools.product(ALPHA6, repeat=ln):
            c = bytes(tup)
            if c[0] != hi:
                continue
            rec(check_int_content(c, False), {"fam": "content", "hex": c.hex()}, 1)
            rec(check_int_content(c, True), {"fam": "content-hdr", "hex": c.hex()}, 1)
    elif fam == "tags":
        nums = _CFG["tagnums"]
        for num in nums[lo:hi]:
            for cls in (1, 2, 3):
                for cons in (False, True):
                    rec(check_tag(cls, cons, num), {"fam": "tag", "cls": cls, "num": str(num), "constructed": cons}, 3)
    elif fam == "tags-long":
        # multi-octet identifiers together with long-form lengths (each alone is covered above)
        # (consecutive lengths for the same identifier, in one process: a header cached by its first octets would show)
        for num in (30, 31, 32, 127, 128, 1024, 16383, 16384, 2**21 - 1, 2**21, 2**28, 2**35, 2**63):
            for n in (127, 128, 129, 130, 255, 256, 257, 1024, 65535, 65536, 65537, 65536 + 256):
                for cls in (1, 2, 3):
                    for cons in (False, True):
                        rec(check_tag_len(cls, cons, num, n), {"fam": "taglen", "cls": cls, "num": str(num), "constructed": cons, "n": n}, 3)
    elif fam == "tags-universal":
        for num in range(0, 37):
            for cons in (False, True):
                rec(check_tag(0, cons, num), {"fam": "tag", "cls": 0, "num": str(num), "constructed": cons}, 3)
                rec(check_tag(0, cons, num, b""), {"fam": "tag", "cls": 0, "num": str(num), "constructed": cons, "content": ""}, 3)
        for cls in (1, 2, 3):
            for num in (0, 1, 30, 31, 127, 128):
                for cons in (False, True):
                    rec(check_tag(cls, cons, num, b""), {"fam": "tag", "cls": cls, "num": str(num), "constructed": cons, "content": ""}, 3)
    elif fam == "push-tags":
        for method in ("push_sequence", "push_set", "push_sequence_of", "push_set_of"):
            for cls in (0, 1, 2, 3):
                for num in (0, 3, 16, 17, 30, 31, 128, 16384):
                    if cls == 0 and num > 36:
                        continue
                    for cons in (False, True):
                        rec(check_push_tag(method, cls, cons, num), {"fam": "push-tag", "method": method, "cls": cls, "num": str(num), "constructed": cons}, 3)
    elif fam == "big-shapes":
        for name, tr in big_shapes():
            rec(check_tree(tr), {"fam": "big-shape", "name": name}, 2)
        for n in (101, 300, 2000):
            rec(check_forest([("seq", (("int", i),)) if i % 2 else ("set", ()) for i in range(n)]), {"fam": "forest", "n": n}, 2)
            rec(check_forest([("int", i) for i in range(n)]), {"fam": "forest-prim", "n": n}, 2)
    elif fam == "lengths":
        for n in range(lo, hi):
            rec(check_length(n), {"fam": "len", "n": n}, 3)
    elif fam == "views":
        for n in list(range(0, 300)) + [65535, 65536]:
            rec(check_views(n), {"fam": "views", "n": n}, 5)
    elif fam == "lengths-big":
        for n in (65535, 65536, 65537, 65536 + 256, 131072, 2**24 - 1, 2**24):
            rec(check_length(n), {"fam": "len", "n": n}, 3)
    elif fam == "bool":
        for o in range(256):
            rec(check_bool_octet(o), {"fam": "bool-octet", "o": o}, 1)
        for v in (False, True):
            rec(check_bool_write(v), {"fam": "bool", "v": v}, 1)
    elif fam == "octets":
        for i in range(lo, hi):
            for ln in (0, 1, 2):
                if i < 256**ln:
                    c = i.to_bytes(ln, "big") if ln else b""
                    rec(check_octets(c), {"fam": "octets", "hex": c.hex()}, 4)
    elif fam == "octets-dom":
        from vf import universe as U

        for c in U.BYTES + U.BYTES_BIG:
            rec(check_octets(c), {"fam": "octets", "hex": c.hex() if len(c) < 600 else f"x*{len(c)}"}, 4)
    elif fam == "trees":
        ts = _CFG["trees"]
        for tr in ts[lo:hi]:
            rec(check_tree(tr), {"fam": "tree", "tree": repr(tr)}, 2)
    loc.distinct.add((fam, lo // max(1, (hi - lo) or 1)))
    return loc


def run(ctx: evid.Ctx) -> None:
    thorough = ctx.tier == "thorough"
    span = 2**24 if thorough else 2**17
    _CFG["special"] = _special_ints(4096)
    _CFG["content_all_len"] = 3 if thorough else 2
    _CFG["tagnums"] = _tag_numbers()
    _CFG["trees"] = trees(3, 40) if thorough else trees(2)
    jobs: t.List[t.Tuple[str, int, int]] = []
    jobs += [("int-range", a - span, b - span) for a, b in par.split(2 * span + 1, 256 if thorough else 64)]
    jobs += [("int-special", a, b) for a, b in par.split(len(_CFG["special"]), 16)]
    jobs += [("content-all", a, b) for a, b in par.split(256 ** _CFG["content_all_len"], 256 if thorough else 32)]
    for ln in range(1, (8 if thorough else 6) + 1):
        jobs += [("content-alpha", ln, first) for first in ALPHA6]
    jobs += [("tags", a, b) for a, b in par.split(len(_CFG["tagnums"]), 32)]
    jobs += [("tags-universal", 0, 0), ("tags-long", 0, 0), ("push-tags", 0, 0), ("big-shapes", 0, 0), ("views", 0, 0)]
    jobs += [("lengths", a, b) for a, b in par.split(70001 if thorough else 1101, 64)]
    jobs += [("lengths-big", 0, 0), ("bool", 0, 0), ("octets-dom", 0, 0)]
    jobs += [("octets", a, b) for a, b in par.split(65536, 16)]
    jobs += [("trees", a, b) for a, b in par.split(len(_CFG["trees"]), 64)]
    fams = set()
    for loc in par.pmap(_work, jobs, ctx.seed):
        evid.absorb(ctx, loc)
    for j in jobs:
        fams.add(j[0])
    ctx.counters["evaluations"] = ctx.counters.get("states", 0)
    ctx.distinct = set(jobs)
    ctx.rule = (
        "each case is one primitive value or content string run through the real ASN1Writer/ASN1Reader and compared with "
        "Python integer arithmetic; families: " + ", ".join(sorted(fams)) + "; distinct_nontrivial counts the disjoint "
        "partitions (family, range) enumerated, each containing values no other partition contains"
    )
    ctx.bounds = {
        "int_range": [-span, span],
        "special_powers_of_two_up_to": 4096,
        "all_contents_up_to_octets": _CFG["content_all_len"],
        "alpha6_contents_up_to_octets": 8 if thorough else 6,
        "tag_numbers": "0..16384 + {2^14+1, 2^21+-1, 2^28+-1, 2^35, 2^64} for APPLICATION/CONTEXT/PRIVATE; UNIVERSAL 0..36",
        "lengths": [0, 70000 if thorough else 1100, 2**24 - 1, 2**24],
        "trees": len(_CFG["trees"]),
    }
    ctx.sample({"fam": "content", "hex": "ff0000", "denotes": -65536})
    ctx.sample({"fam": "tag", "cls": 2, "num": 16384, "constructed": True, "octets": ber.enc_ident(2, True, 16384).hex()})
    ctx.sample({"fam": "tree", "tree": repr(_CFG["trees"][-1])})
    ctx.assumptions = [
        "UNIVERSAL tag numbers are restricted to 0..36: the reader maps universal numbers to an enum by design",
        "empty INTEGER contents are not a value (X.690 8.3.1); how receive treats them is C05's question",
    ]


def replay(case: t.Dict[str, t.Any], key: t.Optional[str] = None) -> t.Tuple[bool, str]:
    fam = case["fam"]
    if fam in ("int", "enum"):
        r = check_int_write(int(case["v"]), fam == "enum")
    elif fam in ("content", "content-hdr"):
        r = check_int_content(bytes.fromhex(case["hex"]), fam == "content-hdr")
    elif fam == "tag":
        r = check_tag(case["cls"], case["constructed"], int(case["num"]), b"v" if "content" not in case else bytes.fromhex(case["content"]))
    elif fam == "views":
        r = check_views(case["n"])
    elif fam == "push-tag":
        r = check_push_tag(case["method"], case["cls"], case["constructed"], int(case["num"]))
    elif fam == "big-shape":
        r = check_tree(dict(big_shapes())[case["name"]])
    elif fam == "forest":
        r = check_forest([("seq", (("int", i),)) if i % 2 else ("set", ()) for i in range(case["n"])])
    elif fam == "forest-prim":
        r = check_forest([("int", i) for i in range(case["n"])])
    elif fam == "len":
        r = check_length(case["n"])
    elif fam == "taglen":
        r = check_tag_len(case["cls"], case["constructed"], int(case["num"]), case["n"])
    elif fam == "bool-octet":
        r = check_bool_octet(case["o"])
    elif fam == "bool":
        r = check_bool_write(case["v"])
    elif fam == "octets":
        r = check_octets(bytes.fromhex(case["hex"]))
    elif fam == "tree":
        r = check_tree(eval(case["tree"], {"__builtins__": {}}))  # noqa: S307
    else:
        return False, f"unknown family {fam}"
    return (True, f"{case} agrees with the oracle") if r is None else (False, f"{case}\n  {r[0]}: {r[1]}")
