"""C17 -- schema text is parsed as RFC 4512 defines it.

Part 1 (faithfulness): derivations of the three ABNF grammars -- each optional clause absent or
present, lists as single item or parenthesised list, every WSP/SP slot at its minimum or widened
-- parsed by the library and by the independent reference parser (vf/ref/schema.py); every field
must agree.  Part 2 (totality): every short token sequence and every single-token edit of the
grammar sentences: from_string returns a definition or raises ValueError, nothing else.
"""
from __future__ import annotations

import itertools
import re
import typing as t

import sansldap.schema as S

from vf.checks import common as K
from vf.engine import evid, par
from vf.ref import schema as RS

DSTR = ["a", "é", "a b", "(", ")", "$", "X-", "\\27", "\\5c", "\\5C", "|", "x\\27y", "NAME", " ",
        # escapes next to text that looks like another escape once decoded, and escapes next to each other
        "C:\\5c27th", "\\5C5c", "\\275c", "\\5c\\27", "\\27\\5C\\5c27", "5c", "27",
        # inner runs of spaces, leading / trailing spaces, characters beyond the BMP, a tab and a line break inside the quotes
        "Smith,  John", " a", "a ", "   ", "\U0001F600", "x\U00020000y\U0010FFFF", "a\tb", "a\n b"]
CLS = {"oc": S.ObjectClassDescription, "at": S.AttributeTypeDescription, "dcr": S.DITContentRuleDescription}


def absd(o: t.Any) -> t.Dict[str, t.Any]:
    import dataclasses

    # the definition's declared fields (not whatever else an implementation keeps on the object)
    d = {f.name: getattr(o, f.name) for f in dataclasses.fields(o)}
    for k, v in d.items():
        if isinstance(v, str) and hasattr(v, "value"):
            d[k] = v.value
    return d


def _long_list(items: t.List[str], sep: t.List[str]) -> t.List[str]:
    out = ["(", "W"]
    for i, it in enumerate(items):
        if i:
            out += sep
        out.append(it)
    return out + ["W", ")"]


def qdescrs_forms() -> t.List[t.List[str]]:
    return [_long_list(["'n%d'" % i for i in range(24)], ["S"])] + [["'cn'"], ["(", "W", "'cn'", "W", ")"], ["(", "W", "'cn'", "S", "'a-1'", "W", ")"], ["(", "W", "'X'", "S", "'cn'", "S", "'b'", "W", ")"], ["(", "W", "W", ")"]]


def oids_forms() -> t.List[t.List[str]]:
    return [_long_list(["a%d" % i if i % 2 else "2.5.4.%d" % i for i in range(24)], ["W", "$", "W"]), ["top"], ["2.5.6.0"], ["(", "W", "top", "W", ")"], ["(", "W", "a", "W", "$", "W", "2.5.4.3", "W", ")"],
            ["(", "W", "a", "W", "$", "W", "b-1", "W", "$", "W", "c", "W", ")"]]  # fmt: skip


def qdstrings_forms(vals: t.List[str]) -> t.List[t.List[str]]:
    out = [[f"'{v}'"] for v in vals]
    out += [["(", "W", f"'{vals[0]}'", "W", ")"], ["(", "W", f"'{vals[0]}'", "S", f"'{vals[1]}'", "W", ")"],
            ["(", "W", f"'{vals[3]}'", "S", f"'{vals[4]}'", "S", f"'{vals[2]}'", "W", ")"], ["(", "W", "W", ")"]]  # fmt: skip
    return out


def ext_forms(n3: bool) -> t.List[t.List[str]]:
    E = []
    for q in qdstrings_forms(DSTR):
        E.append(["S", "X-ORIGIN", "S"] + q)
    E.append(["S", "x-a_b-c", "S", "'v'"])
    E.append(["S", "X--", "S", "'v'"])
    # names whose own text begins with the prefix again (the key is what follows the FIRST "X-" only)
    E.append(["S", "X-X-ORIGIN", "S", "'v'"])
    E.append(["S", "X-x-flag", "S", "'v'"])
    E.append(["S", "X-X-", "S", "'v'"])
    second = [["S", "X-B", "S", "'w'"], ["S", "X-B", "S", "(", "W", "'w'", "S", "'z'", "W", ")"]]
    two = [a + b for a in E[:4] + E[-8:] for b in second]
    two.append(["S", "X-ORIGIN", "S", "'a'", "S", "X-X-ORIGIN", "S", "'b'"])
    three = [a + second[0] + ["S", "X-C_", "S", "(", "W", "'q'", "W", ")"] for a in E[:3]] if n3 else []
    many = []
    for i in range(10):
        many += ["S", "X-K%s" % "abcdefghij"[i], "S"] + (["'v%d'" % i] if i % 2 else ["(", "W", "'p%d'" % i, "S", "'q'", "W", ")"])
    return [[]] + E + two + three + [many]


def clause(kw: str, forms: t.List[t.List[str]]) -> t.List[t.List[str]]:
    return [[]] + [["S", kw, "S"] + f for f in forms]


def flag(kw: str) -> t.List[t.List[str]]:
    return [[], ["S", kw]]


def head() -> t.List[t.List[t.List[str]]]:
    return [[["(", "W", "1.2.3"], ["(", "W", "0.9.2342.19200300"]], clause("NAME", qdescrs_forms()), clause("DESC", [[f"'{v}'"] for v in DSTR]), flag("OBSOLETE")]


def parts_for(kind: str, n3: bool) -> t.List[t.List[t.List[str]]]:
    if kind == "oc":
        return head() + [clause("SUP", oids_forms()), [[], ["S", "ABSTRACT"], ["S", "STRUCTURAL"], ["S", "AUXILIARY"]], clause("MUST", oids_forms()),
                         clause("MAY", oids_forms()), ext_forms(n3), [["W", ")"]]]  # fmt: skip
    if kind == "at":
        return head() + [clause("SUP", [["name"], ["2.5.4.41"]]), clause("EQUALITY", [["caseIgnoreMatch"]]), clause("ORDERING", [["1.2.3.4"]]),
                         clause("SUBSTR", [["x-y"]]), clause("SYNTAX", [["1.3.6.1"], ["1.3.6.1{64}"], ["1.3.6.1{0}"], ["'1.3.6.1'"], ["'1.3.6.1{5}'"], ["1.3.6.1{32768}"]]),
                         flag("SINGLE-VALUE"), flag("COLLECTIVE"), flag("NO-USER-MODIFICATION"),
                         clause("USAGE", [["userApplications"], ["directoryOperation"], ["distributedOperation"], ["dSAOperation"]]), ext_forms(n3), [["W", ")"]]]  # fmt: skip
    return head() + [clause("AUX", oids_forms()), clause("MUST", oids_forms()), clause("MAY", oids_forms()), clause("NOT", oids_forms()), ext_forms(n3), [["W", ")"]]]


def dev_product(parts: t.List[t.List[t.List[str]]], maxdev: int) -> t.Iterator[t.List[t.List[str]]]:
    base = [p[0] for p in parts]
    yield base
    for d in range(1, maxdev + 1):
        for idxs in itertools.combinations(range(len(parts)), d):
            for choice in itertools.product(*[range(1, len(parts[i])) for i in idxs]):
                cur = list(base)
                for i, c in zip(idxs, choice):
                    cur[i] = parts[i][c]
                yield cur


def render(tokens: t.List[str], widen: t.Dict[int, int]) -> str:
    out = []
    k = 0
    for tk in tokens:
        if tk in ("W", "S"):
            out.append(" " * ((0 if tk == "W" else 1) + widen.get(k, 0)))
            k += 1
        else:
            out.append(tk)
    return "".join(out)


def spacings(tokens: t.List[str], maxw: int) -> t.Iterator[t.Dict[int, int]]:
    nsl = sum(1 for tk in tokens if tk in ("W", "S"))
    yield {}
    for d in range(1, maxw + 1):
        for idxs in itertools.combinations(range(nsl), d):
            for ws in itertools.product((1, 2), repeat=d):
                yield dict(zip(idxs, ws))
    yield {i: 1 for i in range(nsl)}


_BARE: t.Dict[str, t.Tuple[str, t.Dict[str, t.Any]]] = {k: ("( 9.9 )", RS.PARSERS[k]("( 9.9 )")) for k in ("oc", "at", "dcr")}


def check_sentence(kind: str, s: str) -> t.Optional[t.Tuple[str, str]]:
    try:
        exp = RS.PARSERS[kind](s)
    except RS.Bad as e:
        raise AssertionError(f"generator produced a string outside the grammar: {s!r}: {e}") from None
    multi = "space-after-xname" if re.search(r"[xX]-[A-Za-z_-]+  ", s) else "other"
    try:
        obj = CLS[kind].from_string(s)
        got = absd(obj)
    except ValueError as e:
        return (f"rejected:{kind}:{multi}:{K.exc_key(e)[:50]}", f"{s!r} is RFC 4512 but was rejected: {e}")
    except BaseException as e:  # noqa: BLE001
        return (f"raises:{type(e).__name__}", f"{s!r} raised {type(e).__name__}: {e}")
    if got != exp:
        diff = sorted(k for k in exp if exp[k] != got.get(k))
        return (f"differs:{kind}:{'+'.join(diff)}:{multi}", f"{s!r}: " + "; ".join(f"{k} should be {exp[k]!r}, got {got.get(k)!r}" for k in diff))
    # the result belongs to the caller: after the caller has changed every list / dict in it, the same text -- and the
    # shortest definition, which has none of the optional elements -- still parse to what the grammar denotes
    # (one sentence in eight, chosen by a checksum of its text: a result shared between calls shows on any text)
    import zlib

    if zlib.crc32(s.encode("utf-8", "surrogatepass")) & 7:
        return None
    import copy

    exp0 = copy.deepcopy(exp)
    touched = False
    for v in absd(obj).values():
        if isinstance(v, list):
            v.append("caller-added")
            touched = True
        elif isinstance(v, dict):
            v["CALLER"] = ["added"]
            for lst in v.values():
                if isinstance(lst, list):
                    lst.append("caller-added")
            touched = True
    if touched:
        for text, want in ((s, exp0), (_BARE[kind][0], _BARE[kind][1])):
            try:
                again = absd(CLS[kind].from_string(text))
            except BaseException as e:  # noqa: BLE001
                return (f"reparse-after-caller-change-raises:{type(e).__name__}", f"{text!r}: {e}")
            if again != want:
                diff = sorted(k for k in want if want[k] != again.get(k))
                return (f"parse-result-shared-between-calls:{kind}:{'+'.join(diff)}", f"after the caller changed the object returned for {s!r}, {text!r} parses with {', '.join(f'{k}={again.get(k)!r}' for k in diff)}")
    return None


TOKENS = ["(", ")", " ", "  ", "'", "$", "\\", "\\27", "\\5c", "1.2", "1", "cn", "'cn'", "NAME", "DESC", "SUP", "MUST", "SYNTAX", "X-A", "X-", "{", "}", "\n", "é", "%", "%s", "%(x)d"]
assert len(TOKENS) == 27


def check_total(kind: str, s: str) -> t.Optional[t.Tuple[str, str]]:
    try:
        r = CLS[kind].from_string(s)
    except ValueError:
        return None
    except BaseException as e:  # noqa: BLE001
        return (f"raises:{type(e).__name__}", f"{kind}.from_string({s[:80]!r}) raised {type(e).__name__}: {e}")
    if not isinstance(r, CLS[kind]):
        return ("returns-other", f"{s!r} -> {type(r).__name__}")
    return None


_X: t.Dict[str, t.Any] = {}


def _work(job: t.Tuple[t.Any, ...]) -> evid.Local:
    # a library call that never returns is reported (CallDoesNotReturn), it does not hang the check
    with K.watchdog():
        return _work_cases(job)


def _work_cases(job: t.Tuple[t.Any, ...]) -> evid.Local:
    loc = evid.Local()
    fam = job[0]
    if fam == "gram":
        kind, lo, hi = job[1], job[2], job[3]
        combos = _X["combos"][kind]
        maxw = _X["maxw"]
        for combo in combos[lo:hi]:
            tokens = [tk for part in combo for tk in part]
            for widen in spacings(tokens, maxw):
                s = render(tokens, widen)
                loc.add("states")
                loc.add("transitions", 2)
                r = check_sentence(kind, s)
                if r:
                    loc.violation(r[0], r[1], {"kind": kind, "text": s})
        loc.distinct.add((fam, kind, lo))
    elif fam == "large":
        # very long lists / many extensions / huge numbers / case variants: single sentences outside the product
        big = 1500
        names = " ".join("'n%d'" % i for i in range(big))
        oids = " $ ".join(("a%d" % i if i % 2 else "2.5.4.%d" % i) for i in range(big))
        vals = " ".join("'v%d'" % i for i in range(big))
        exts = " ".join("X-K%s 'v%d'" % ("".join("abcdefghij"[int(c)] for c in str(i)), i) for i in range(300))
        cases = {
            "oc": ["( 1.2 DESC '" + "d" * 70000 + "' X-A '" + "e" * 66000 + "' )", f"( 1.2 NAME ( {names} ) SUP ( {oids} ) MUST ( {oids} ) X-A ( {vals} ) )", f"( 1.2 NAME 'CN' SUP TOP MAY ( top $ Top $ TOP ) {exts} )", "( 1.2 NAME ( 'x' 'X' ) DESC 'd' X-A 'p' X-a 'q' )"],
            "at": [f"( 1.2 NAME ( {names} ) SYNTAX 1.3.6.1{{2147483648}} X-A ( {vals} ) )", "( 1.2 SYNTAX 1.3.6.1{1000000000000000000000000000000} )", "( 1.2 SUP NAME EQUALITY Name SYNTAX '1.3.6.1{4294967296}' )",
                   f"( 1.2 NAME 'cn' {exts} )"],
            "dcr": [f"( 1.2 AUX ( {oids} ) MUST ( {oids} ) MAY ( {oids} ) NOT ( {oids} ) X-A ( {vals} ) )", f"( 1.2 NAME ( {names} ) {exts} )"],
        }
        for kind, ss in cases.items():
            for s in ss:
                loc.add("states")
                loc.add("transitions", 2)
                r = check_sentence(kind, s)
                if r:
                    loc.violation(r[0], r[1][:600], {"kind": kind, "text": s if len(s) < 3000 else None, "large": ss.index(s)})
        loc.distinct.add(("large",))
    elif fam == "tok":
        ln, first = job[1], job[2]
        for rest in itertools.product(TOKENS, repeat=ln - 1):
            body = first + "".join(rest)
            for kind in CLS:
                for s in (body, "( 1.2 " + body, "( 1.2" + body + " )", "( 1.2 X-A '" + body + "' )"):
                    loc.add("states")
                    loc.add("transitions")
                    r = check_total(kind, s)
                    if r:
                        loc.violation(r[0], r[1], {"kind": kind, "text": s, "totality": True})
        loc.distinct.add((fam, ln, first))
    elif fam == "edit":
        kind, lo, hi = job[1], job[2], job[3]
        for s in _X["corpus"][kind][lo:hi]:
            toks = re.findall(r"'[^']*'|[A-Za-z0-9.{}-]+|.", s, flags=re.S)
            for i in range(len(toks) + 1):
                for tk in TOKENS:
                    e = "".join(toks[:i] + [tk] + toks[i:])
                    loc.add("states")
                    loc.add("transitions")
                    r = check_total(kind, e)
                    if r:
                        loc.violation(r[0], r[1], {"kind": kind, "text": e, "totality": True})
            for i in range(len(toks)):
                for e in ["".join(toks[:i] + toks[i + 1 :])] + ["".join(toks[:i] + [tk] + toks[i + 1 :]) for tk in TOKENS]:
                    loc.add("states")
                    loc.add("transitions")
                    r = check_total(kind, e)
                    if r:
                        loc.violation(r[0], r[1], {"kind": kind, "text": e, "totality": True})
        loc.distinct.add((fam, kind, lo))
    return loc


def run(ctx: evid.Ctx) -> None:
    thorough = ctx.tier == "thorough"
    maxdev = 2  # (3 at the thorough tier became an hour once the token and extension alphabets had grown; the thorough tier widens the spacing instead)
    maxw = 2 if thorough else 1
    _X["maxw"] = maxw
    _X["combos"] = {k: list(dev_product(parts_for(k, thorough), maxdev)) for k in CLS}
    jobs: t.List[t.Tuple[t.Any, ...]] = []
    for k in CLS:
        jobs += [("gram", k, a, b) for a, b in par.split(len(_X["combos"][k]), 96 if thorough else 32)]
    jobs.append(("large",))
    maxtok = 4
    for ln in range(1, maxtok + 1):
        jobs += [("tok", ln, tk) for tk in TOKENS]
    _X["corpus"] = {}
    for k in CLS:
        combos = _X["combos"][k]
        pick = combos[:: max(1, len(combos) // (120 if thorough else 40))]
        _X["corpus"][k] = [render([tk for part in c for tk in part], {}) for c in pick]
        jobs += [("edit", k, a, b) for a, b in par.split(len(_X["corpus"][k]), 16)]
    for loc in par.pmap(_work, jobs, ctx.seed):
        evid.absorb(ctx, loc)
    ctx.counters["evaluations"] = ctx.counters.get("states", 0)
    ctx.sample({"kind": "oc", "text": render([tk for part in _X["combos"]["oc"][-1] for tk in part], {0: 1})})
    ctx.sample({"kind": "at", "text": "( 1.2.3 NAME 'cn' SYNTAX '1.3.6.1{5}' X-ORIGIN  'a b' )"})
    ctx.sample({"totality": "( 1.2 X-A '" + "".join(TOKENS[5:8]) + "' )"})
    ctx.rule = (
        "part 1: one case = one grammar sentence (clause choices x list forms x spacing assignment) compared field by field with "
        "the reference parser; part 2: one case = one token sequence / single-token edit checked for totality (returns or "
        "ValueError); distinct_nontrivial counts disjoint enumeration partitions"
    )
    ctx.bounds = {"clause_deviations": maxdev, "widened_slots": maxw, "dstrings": DSTR, "combos": {k: len(v) for k, v in _X["combos"].items()},
                  "token_alphabet": TOKENS, "token_sequences_up_to": maxtok, "edit_corpus": {k: len(v) for k, v in _X["corpus"].items()}}  # fmt: skip
    ctx.assumptions = [
        "extension names are compared in the library's convention (key without the X- prefix); sentences never repeat an extension name",
        "upper-case keywords, 'X-' extension prefix as the property states; the AD variant SYNTAX 'oid' / 'oid{len}' is part of the grammar here",
    ]


def replay(case: t.Dict[str, t.Any], key: t.Optional[str] = None) -> t.Tuple[bool, str]:
    if case.get("totality"):
        r = check_total(case["kind"], case["text"])
    else:
        r = check_sentence(case["kind"], case["text"])
    return (r is None), f"{case['kind']}: {case['text']!r}" + (f"\n  {r[0]}: {r[1]}" if r else "\n  parsed as RFC 4512 defines")
