"""C10 -- rejected calls have no wire effect; servers answer only open requests (explicit-state search over the real session objects, vf/checks/sess.py)."""
from __future__ import annotations

import typing as t

from vf.checks import sess, tlalc
from vf.engine import evid

PROP = "C10"
ROLES = ('client', 'server')


def bounds(tier: str) -> t.Dict[str, int]:
    return {"client": 4 if tier == "thorough" else 3, "server": 3 if tier == "thorough" else 2}


def run(ctx: evid.Ctx) -> None:
    b = bounds(ctx.tier)
    known = set(ctx.known)
    for role in ROLES:
        # base 0: fresh sessions.  base 126: ids 127, 128, 129.. (one- to two-octet INTEGER) -- for the client
        # a session that has already completed 126 operations ("start from non-initial states too")
        bases = [0, 126] if (role == "client" or ctx.tier == "thorough") else [0]
        for base in bases:
            res = sess.explore(role, b[role] if base == 0 else min(b[role], 2), known, ctx.seed, parallel=True, prop=PROP, id_base=base, cap=30000 if ctx.tier == "thorough" else 8000)
            sess.report(ctx, PROP, role, b[role] if base == 0 else min(b[role], 2), res, base)
            ctx.note(f"{role}_bfs_levels_base{base}", res.levels)
    for role in ROLES:
        nh, steps, viols = sess.long_runs(role, known, PROP)
        ctx.add("long_run_histories", nh)
        ctx.add("long_run_steps", steps)
        ctx.add("transitions", steps)
        for (p, k), e in viols.items():
            ctx.violation(k, e["what"], {"role": role, "K": 10**9, "history": [list(x) for x in e["history"]]}, e["count"])
    # "a refused call leaves the outgoing byte stream exactly as it was" with the stream only PARTLY drained: the search of
    # C12 (sends, refused sends and drains of every amount interleaved), of which the refused-call findings belong here
    from vf.checks import c12

    for role in ROLES:
        st = c12.explore(role, 2, 20000)
        ctx.add("states", st["states"])
        ctx.add("transitions", st["transitions"])
        ctx.add("partly_drained_states", st["states"])
        for k, e in st["viol"].items():
            if ":refused" in k or "refused" in e["what"][:60]:
                ctx.violation(f"partly-drained:{k}", e["what"], {"role": role, "history": e["history"], "c12": True}, e["count"])
    # the TLA+ model of the documented life cycle: TLC checks the clauses on the model, the product search binds it to the code
    tlalc.check(ctx, PROP, ROLES, 3 if ctx.tier == "thorough" else 2)
    ctx.counters["evaluations"] = ctx.counters.get("transitions", 0)
    ctx.rule = (
        "explicit-state BFS to a fixpoint over one real session; a state is (structural freeze of the session object, "
        "ghost); a transition is one API call or one delivered message from the alphabet in vf/checks/sess.py; "
        "distinct_nontrivial counts distinct observed outcomes (role, event, pre-state, post-state, exception class, "
        "bytes emitted?)"
    )
    ctx.bounds = {"K": b, "alphabet": {r: len(sess.events(r, b[r])) for r in ROLES}, "outgoing_buffer": "drained after every event"}
    ctx.assumptions = [
        "deliveries are whole PDUs here (chunking is C02's subject); the outgoing buffer is drained after every event (C12 keeps it)",
        "an edge violating a monitor of this property is not expanded unless the violation is a listed known finding",
        "tla/Lifecycle.tla is checked by TLC (17 action properties + TypeOK) and bound to the code by exploring the product of its dumped state graph with the real objects: "
        "every model edge must be exercised and every real step must equal the model's edge (acceptance, error class, state, message emitted and its id, message attached to the error); "
        "the model leaves out what the properties leave open (a non-search response kind for a search id; more than K operations)",
        "beyond the exhaustive bound, a fixed set of long structured histories (4/9/33 operations in flight, 3 bind cycles, ids up to 2^64) is run through the same monitors",
    ]


def replay(case: t.Dict[str, t.Any], key: t.Optional[str] = None) -> t.Tuple[bool, str]:
    if case.get("tla"):
        return tlalc.replay(case, PROP, key)
    if case.get("c12"):
        from vf.checks import c12

        return c12.replay_case(case)
    return sess.replay_history(case["role"], case["history"], case["K"], PROP, key, case.get("id_base", 0))
