"""C01 -- every message survives encode -> decode unchanged (bounded-exhaustive over U)."""
from __future__ import annotations

import typing as t

from vf import abs as A
from vf import universe as U
from vf.checks import common as K
from vf.engine import evid, par

SUFFIXES_QUICK = [b"", K.UNBIND_PDU]
SUFFIXES_THOROUGH = [b"", b"\xaa", K.UNBIND_PDU]


def check_one(m: t.Any, suffixes: t.List[bytes]) -> t.Optional[t.Tuple[str, str]]:
    """-> None if the property holds for m, else (key, description)."""
    try:
        with K.guard(10):
            b = m.pack(K.OPTS)
    except BaseException as e:
        return (f"pack-raises:{K.exc_key(e)}", f"pack raised {type(e).__name__}: {e}")
    if type(b) is not bytes:
        return ("pack-type", f"pack returned {type(b).__name__}")
    for sfx in suffixes:
        try:
            with K.guard(10):
                m2, rest = K.unpack(b + sfx)
        except BaseException as e:
            return (f"unpack-raises:{K.exc_key(e)}", f"decoding its own encoding raised {type(e).__name__}: {e}")
        if rest != sfx:
            return ("consumed", f"decoder left {len(rest)} bytes, {len(sfx)} expected (suffix {sfx.hex()})")
        why = K.messages_equal(m, m2)
        if why and why.startswith("inconsistent-value:"):
            return (why.split(": ")[0], why.split(": ", 1)[1])
        if why:
            return (f"differs:{type(m).__name__}:{K.strip_idx(why)}", f"decoded message differs at {why}")
        try:
            b2 = m2.pack(K.OPTS)
        except BaseException as e:
            return (f"repack-raises:{K.exc_key(e)}", f"re-encoding raised {type(e).__name__}: {e}")
        if b2 != b:
            return (f"repack-differs:{type(m).__name__}", "re-encoding the decoded message gives different bytes")
    return None


def options_history(ctx: evid.Ctx) -> None:
    """Messages carrying application-registered types, round-tripped with ONE options object that has a history:
    it decoded plain messages before the type was registered, and other types were registered in between."""
    import sansldap as L
    PackingOptions = A.lib("PackingOptions")

    from vf.checks.c19 import ACred, FFilter, XControl

    res = L.LDAPResult(L.LDAPResultCode.SUCCESS, "", "", None)
    plain = [
        L.SearchRequest(1, [L.ShowDeletedControl(True)], "", L.SearchScope.BASE, L.DereferencingPolicy.NEVER, 0, 0, False, L.FilterOr([L.FilterPresent("a"), L.FilterNot(L.FilterEquality("b", b"c"))]), []),
        L.BindRequest(2, [], 3, "", L.SimpleCredential("p")),
        L.SearchResultDone(3, [L.PagedResultControl(False, 1, b"c")], res),
    ]
    custom = {
        "X": (lambda o: o.control.choices.append(XControl), L.SearchResultDone(4, [XControl(True, 7), L.ShowDeletedControl(False)], res)),
        "F": (lambda o: o.filter.choices.append(FFilter), L.SearchRequest(5, [], "", L.SearchScope.BASE, L.DereferencingPolicy.NEVER, 0, 0, False, L.FilterAnd([L.FilterOr([FFilter("v"), L.FilterPresent("a")]), L.FilterNot(FFilter("w"))]), [])),
        "A": (lambda o: o.authentication.choices.append(ACred), L.BindRequest(6, [], 3, "", ACred("u", "p"))),
    }
    import itertools

    for order in itertools.permutations("XFA"):
        for warm in (False, True):
            opts = PackingOptions()
            for k in order:
                if warm:
                    for m in plain:
                        K.unpack(m.pack(opts), opts)
                custom[k][0](opts)
                for kk in order[: order.index(k) + 1]:
                    m = custom[kk][1]
                    ctx.add("states")
                    ctx.add("transitions", 3)
                    try:
                        m2, rest = K.unpack(m.pack(opts), opts)
                        bad = None if (m2 == m or K.messages_equal(m, m2, opts) is None) and rest == b"" and m2.pack(opts) == m.pack(opts) else "decoded message differs"
                    except BaseException as e:  # noqa: BLE001
                        bad = f"{type(e).__name__}: {e}"
                    if bad:
                        ctx.violation(f"registered-type-roundtrip:{kk}:{'after-decoding' if warm else 'fresh-options'}", f"options registered {order[: order.index(k) + 1]} ({'after' if warm else 'without'} earlier decodes): {type(m).__name__} with custom {kk}: {bad}", {"order": list(order), "warm": warm, "type": kk})
                for m in plain:
                    try:
                        m2, rest = K.unpack(m.pack(opts), opts)
                        ok = K.messages_equal(m, m2, opts) is None
                    except BaseException:  # noqa: BLE001
                        ok = False
                    if not ok:
                        ctx.violation(f"builtin-roundtrip-after-registration:{k}", f"after registering {k} a built-in {type(m).__name__} no longer round-trips", {"order": list(order), "warm": warm, "type": k})


_STATE: t.Dict[str, t.Any] = {}


def _work(job: U.Job) -> evid.Local:
    loc = evid.Local()
    ks = _STATE["kinds"]
    sfx = _STATE["suffixes"]
    first = True
    for m, paths in U.enumerate_job(ks, job):
        loc.add("states")
        loc.add("transitions", 3 * len(sfx))
        r = check_one(m, sfx)
        if first:
            loc.distinct.add((type(m).__name__, paths, job[2]))
            if job[1] and len(job[1]) <= 1:
                loc.sample({"msg": A.src(m)[:300], "deviating": list(paths)}, cap=1)
            first = False
        if r:
            loc.violation(r[0], r[1], {"msg": A.src(m)})
    return loc


def deep_filters(ctx: t.Any) -> None:
    """Search requests whose filter is nested 100 / 300 / 450 deep (the decoder's limit is the interpreter's recursion
    limit, ~490 levels): packed, decoded, compared with an explicit stack, re-packed, and delivered to a server session."""
    import dataclasses

    import sansldap as L
    from sansldap.asn1 import ASN1Reader

    from vf.checks.c15 import same_filter

    leaf = L.FilterEquality("cn", b"v")
    for depth in (100, 300, 450):
        for shape in ("not", "and", "or", "mix"):
            node: t.Any = leaf
            for i in range(depth):
                op = shape if shape != "mix" else ("not", "and", "or")[i % 3]
                node = L.FilterNot(node) if op == "not" else L.FilterAnd([node, L.FilterPresent("a")]) if op == "and" else L.FilterOr([L.FilterPresent("a"), node])
            m = L.SearchRequest(5, [], "dc=x", L.SearchScope.SUBTREE, L.DereferencingPolicy.NEVER, 0, 0, False, node, ["cn"])
            ctx.add("states")
            ctx.add("transitions", 4)
            case = {"order": "deep-filter", "msg": None, "deep": [shape, depth]}
            try:
                data = m.pack(K.OPTS)
                m2 = K.unpack_ldap_message(ASN1Reader(data), K.OPTS)
                again = m2.pack(K.OPTS)
                got = L.LDAPServer().receive(data)
            except BaseException as e:  # noqa: BLE001
                ctx.violation(f"deep-filter-raises:{type(e).__name__}", f"search request with a {shape} filter nested {depth} deep: {type(e).__name__}: {str(e)[:100]}", case)
                continue
            ok = same_filter(m.filter, m2.filter) and dataclasses.replace(m2, filter=leaf) == dataclasses.replace(m, filter=leaf) and again == data
            ok = ok and len(got) == 1 and same_filter(got[0].filter, node)
            if not ok:
                ctx.violation("deep-filter-differs", f"search request with a {shape} filter nested {depth} deep does not survive pack / unpack", case)


ENCODINGS = ("latin-1", "utf-16-le", "utf-16", "utf-32-be", "cp1252", "ascii")


def encodings_family(ctx: t.Any) -> None:
    """PackingOptions with another string_encoding (every options object set to it, as a session does for utf-8):
    every dev(1) message of U whose text the encoding can express is round-tripped with those options."""
    import sansldap as L

    PackingOptions = A.lib("PackingOptions")
    ks = U.kinds()
    for enc in ENCODINGS:
        o = PackingOptions(string_encoding=enc, authentication=L.AuthenticationOptions(string_encoding=enc), control=L.ControlOptions(string_encoding=enc), filter=L.FilterOptions(string_encoding=enc))
        for job in U.jobs(ks, 1):
            for m, _paths in U.enumerate_job(ks, job):
                try:
                    data = m.pack(o)
                except UnicodeEncodeError:
                    continue  # the text is outside what this encoding can express
                except BaseException as e:  # noqa: BLE001
                    ctx.violation(f"encoding:pack-raises:{type(e).__name__}", f"string_encoding={enc}: pack raised {type(e).__name__}: {e}", {"order": "encodings", "msg": A.src(m), "encoding": enc})
                    continue
                ctx.add("states")
                ctx.add("transitions", 3)
                try:
                    m2, rest = K.unpack(data, o)
                    why = K.messages_equal(m, m2, o)
                    if why is None and rest != b"":
                        why = "bytes left over"
                    if why is None and m2.pack(o) != data:
                        why = "re-encoding differs"
                except BaseException as e:  # noqa: BLE001
                    why = f"{type(e).__name__}: {str(e)[:80]}"
                if why:
                    ctx.violation(f"encoding:{type(m).__name__}:{K.strip_idx(why)[:60]}", f"string_encoding={enc}: {why}", {"order": "encodings", "msg": A.src(m), "encoding": enc})
        ctx.distinct.add(("encoding", enc))


_OID = __import__("re").compile(r"[0-2](\.(0|[1-9][0-9]*))+\Z")


def control_types_family(ctx: t.Any) -> None:
    """Control types at the edges: the empty string and a non-OID as type of a generic control; the OID of every control
    class the library knows (read from ControlOptions, so a newly added known control is covered) carried by a generic
    control with no value / an empty value / other octets / the class's own value.  A generic control must come back as
    sent; a known one comes back as its class, exposing the octets that were sent, and re-encodes to the same bytes."""
    import sansldap as L

    res = L.LDAPResult(L.LDAPResultCode.SUCCESS, "", "", None)
    choices = list(L.ControlOptions().choices)
    known = {c.control_type: c for c in choices if isinstance(getattr(c, "control_type", None), str) and _OID.match(c.control_type)}
    # control types other LDAP software knows (a library that learns one of them tomorrow must still hand back what it was sent):
    # ManageDsaIT, TreeDelete, server-side sort request / response, VLV request, SD flags, extended DN, proxied authorisation,
    # pre-read / post-read, assertion, matched values, subentries, DirSync, password policy
    wellknown = ["2.16.840.1.113730.3.4.2", "1.2.840.113556.1.4.805", "1.2.840.113556.1.4.473", "1.2.840.113556.1.4.474", "2.16.840.1.113730.3.4.9", "1.2.840.113556.1.4.801",
                 "1.2.840.113556.1.4.529", "2.16.840.1.113730.3.4.18", "1.3.6.1.1.13.1", "1.3.6.1.1.13.2", "1.3.6.1.1.12", "1.2.826.0.1.3344810.2.3", "1.3.6.1.4.1.4203.1.10.1",
                 "1.2.840.113556.1.4.841", "1.3.6.1.4.1.42.2.27.8.5.1"]  # fmt: skip
    types = ["", "not-an-oid", "1", "1.2.840.113556.1.4", "1.2.840.113556.1.4.417.1"] + wellknown + sorted(known)
    for ct in types:
        own = []
        if ct in known:
            for inst in _instances(known[ct]):
                try:
                    own.append(inst.get_value(K.OPTS.control))
                except BaseException:  # noqa: BLE001, S112
                    continue
        for crit in (False, True):
            for v in [None, b"", b"zz", b"\x30\x00", b"\x30\x03\x02\x01\x01", b"\x30\x84\x00\x00\x00\x03\x02\x01\x01", b"\x04\x00"] + [x for x in own if x is not None]:
                for wrap in (lambda c: L.SearchResultDone(3, [c], res), lambda c: L.SearchRequest(4, [L.LDAPControl("1.2", False, None), c], "", L.SearchScope.BASE, L.DereferencingPolicy.NEVER, 0, 0, False, L.FilterPresent("a"), [])):
                    sent = L.LDAPControl(ct, crit, v)
                    m = wrap(sent)
                    ctx.add("states")
                    ctx.add("transitions", 3)
                    case = {"order": "control-types", "msg": A.src(m)}
                    data = m.pack(K.OPTS)
                    try:
                        m2, rest = K.unpack(data)
                    except ValueError:
                        if ct in known and v not in own:
                            continue  # octets that are not a value of that known type: refusing them is the decoder's right (C05)
                        ctx.violation(f"control-type:decode-raises:{'known' if ct in known else 'generic'}", f"control type {ct!r} value {v!r}: decode raised", case)
                        continue
                    except BaseException as e:  # noqa: BLE001
                        ctx.violation(f"control-type:decode-raises:{type(e).__name__}", f"control type {ct!r} value {v!r}: {type(e).__name__}: {e}", case)
                        continue
                    got = m2.controls[-1]
                    if rest != b"" or m2.pack(K.OPTS) != data:
                        ctx.violation(f"control-type:repack-differs:{'known' if ct in known else 'generic'}", f"control type {ct!r} value {v!r} decodes to {A.src(got)[:100]}, which re-encodes differently", case)
                    elif ct not in known and (type(got) is not L.LDAPControl or got != sent):
                        ctx.violation("control-type:generic-control-altered", f"generic control {A.src(sent)} decodes to {A.src(got)[:120]}", case)
                    elif ct in known and (got.control_type != ct or got.critical is not crit or getattr(got, "value", None) not in (None, v)):
                        ctx.violation("control-type:known-control-altered", f"control {A.src(sent)} of known type decodes to {A.src(got)[:120]}", case)
        ctx.distinct.add(("control-type", ct))


def _instances(cls: t.Any) -> t.List[t.Any]:
    """A few instances of a known control class, built from its dataclass fields with simple values."""
    import dataclasses

    out = []
    for ival, bval in ((0, b""), (7, b"cookie")):
        kw: t.Dict[str, t.Any] = {}
        try:
            for f in dataclasses.fields(cls):
                if not f.init or f.name in ("control_type",):
                    continue
                kw[f.name] = True if f.type in ("bool", bool) else ival if f.type in ("int", int) else bval if "bytes" in str(f.type) else None
            kw.pop("value", None)
            out.append(cls(**kw))
        except BaseException:  # noqa: BLE001, S112
            continue
    return out


def run(ctx: evid.Ctx) -> None:
    thorough = ctx.tier == "thorough"
    d = 3 if thorough else 2
    ks = U.kinds(big=thorough, depth3=thorough)
    _STATE["kinds"] = ks
    _STATE["suffixes"] = SUFFIXES_THOROUGH if thorough else SUFFIXES_QUICK
    # twice, in one process and with one options object: the second pass sees whatever the first left behind
    # (caches, counters, interned values) -- a decode must not depend on what was decoded before it
    for m in U.big_messages() + U.big_messages():
        ctx.add("states")
        ctx.add("transitions", 6)
        r = check_one(m, SUFFIXES_QUICK)
        if r:
            ctx.violation(r[0], r[1], {"msg": A.src(m) if len(A.src(m)) < 2000 else None, "big": type(m).__name__})
    options_history(ctx)
    deep_filters(ctx)
    encodings_family(ctx)
    control_types_family(ctx)
    jobs = U.jobs(ks, d)
    jobs.sort(key=lambda j: -U.job_size(ks, j))
    for loc in par.pmap(_work, jobs, ctx.seed):
        evid.absorb(ctx, loc)
    ctx.counters["evaluations"] = ctx.counters.get("states", 0)
    ctx.rule = (
        f"U = full(2) + dev({d}) over 9 message kinds (DESIGN 2.1); one case = one abstract message, packed, "
        "decoded with each suffix, compared field by field and re-packed; distinct_nontrivial counts distinct "
        "(kind, set of deviating field paths) classes, every one of which deviates from the all-default message"
    )
    ctx.bounds = {"deviations": d, "suffixes": [s.hex() for s in _STATE["suffixes"]], "kinds": [k.name for k in ks],
                  "domain_sizes": {k.name: {f.path: [len(f.dom), len(f.xdom)] for f in k.fields} for k in ks}}  # fmt: skip
    ctx.assumptions = [
        "string_encoding utf-8 (the session default) for U; dev(1) of U again under latin-1, utf-16-le, utf-16, utf-32-be, cp1252 and ascii where the text is expressible; strings without lone surrogates",
        "a generic LDAPControl never carries a library-known OID (it decodes as the known class by design)",
        "filter and controls fields use a reduced crossing domain when deviating together with other fields",
        "filters nested up to 450 levels; deeper ones exceed the interpreter's recursion limit in the decoder (reported as ProtocolError by receive, see C05): resource exhaustion, not covered",
    ]


def replay(case: t.Dict[str, t.Any], key: t.Optional[str] = None) -> t.Tuple[bool, str]:
    if "order" in case or case.get("msg") is None:
        c = evid.Ctx("C01", "quick", 0)
        options_history(c)
        deep_filters(c)
        encodings_family(c)
        control_types_family(c)
        for m in U.big_messages():
            r = check_one(m, SUFFIXES_QUICK)
            if r:
                c.violation(r[0], r[1], {})
        hits = [v for k, v in c.viol.items() if key is None or k == key]
        return (not hits), "\n".join(f"  {v['key']}: {v['what']}" for v in hits) or "registered-type and 64 KiB cases round-trip"
    m = A.unsrc(case["msg"])
    r = check_one(m, SUFFIXES_THOROUGH)
    if r is None:
        return True, f"message {case['msg'][:200]} round-trips"
    return False, f"message {case['msg'][:400]}\n  {r[0]}: {r[1]}"
