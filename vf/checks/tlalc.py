"""TLA+ life-cycle model (tla/Lifecycle.tla) bound to the real session objects.

1. TLC explores the model completely for (Role, K), checks the property clauses written as
   action properties in the module, and dumps the full labelled state graph.
2. The dump is turned into a transition table  delta[(model state, event)] -> (ok, out, eresp,
   model state')  (the model is deterministic per event; that is asserted).
3. The *product* of that table with the real LDAPClient / LDAPServer is explored breadth first:
   a product state is (structural freeze of the real object, model state); every event enabled
   in the model is applied to a deep copy of the real object -- a delivery in three ways: whole,
   cut in two, and re-encoded with 5-octet lengths -- and what the real object visibly did
   (returned / raised which class, state afterwards, the one message appended to the outgoing
   stream and its id, the message attached to the error) must equal the model's edge.
4. Every edge of the model must have been exercised by the product (the model has no behaviour
   the code lacks), and every real step matched (the code has no behaviour the model lacks,
   over this alphabet).  So, within the bound, model and code are trace equivalent and what TLC
   proved about the model holds for the code.
"""
from __future__ import annotations

import collections
import copy
import json
import os
import re
import shutil
import subprocess
import tempfile
import typing as t

import sansldap as L

from vf import abs as A
from vf.checks import sess
from vf.ref import ber

TLA_DIR = os.path.join(os.path.dirname(os.path.dirname(os.path.dirname(os.path.abspath(__file__)))), "tla")
PROPERTIES = [
    "ClosedIsFinal", "BindingEntered", "BindingLeft", "BindNeedsIdle", "OnlyBindTrafficWhileBinding", "OpensOnFirstTraffic",
    "RefusedCallIsInvisible", "ReceiveErrorCloses", "IdsIncrease", "IdsNeverGoBack", "AcceptedIffInProgress", "SearchStays",
    "OthersCompleteOnFirst", "RequestsCloseClient", "OnlyOutstandingAnswered", "FinalRetires", "ReceiveQueuesNothing",
]  # fmt: skip
# which property a disagreement on an edge is reported under
PROP_OF_CLAUSE = {"C08": "lifecycle", "C09": "correlation", "C10": "wire"}

Proj = t.Tuple[str, t.Tuple[str, ...], int]  # (st, prog, nxt)
Ev = t.Tuple[str, str, int]


class TlcError(RuntimeError):
    pass


def run_tlc(role: str, k: int, module_text: t.Optional[str] = None, invariant: bool = True) -> t.Tuple[str, t.Dict[str, t.Any]]:
    """-> (text of the dot dump, stats).  Raises TlcError when TLC reports anything but success."""
    work = tempfile.mkdtemp(prefix="vf-tlc-")
    try:
        if module_text is None:
            shutil.copy(os.path.join(TLA_DIR, "Lifecycle.tla"), work)
        else:
            with open(os.path.join(work, "Lifecycle.tla"), "w") as f:
                f.write(module_text)
        with open(os.path.join(work, "m.cfg"), "w") as f:
            f.write(f'SPECIFICATION Spec\nCONSTANTS\n  Role = "{role}"\n  K = {k}\n{"INVARIANT TypeOK" if invariant else ""}\nPROPERTIES {" ".join(PROPERTIES)}\n')
        env = dict(os.environ)
        env["JAVA_TOOL_OPTIONS"] = (env.get("JAVA_TOOL_OPTIONS", "") + f" -Djava.io.tmpdir={work}").strip()
        p = subprocess.run(
            ["tlc", "-workers", "1", "-noGenerateSpecTE", "-metadir", os.path.join(work, "meta"), "-dump", "dot,actionlabels", os.path.join(work, "g"), "-config", "m.cfg", "Lifecycle.tla"],
            cwd=work, env=env, capture_output=True, text=True, timeout=1200,
        )  # fmt: skip
        outp = p.stdout + p.stderr
        if "Model checking completed. No error has been found." not in outp:
            named = " ".join(re.findall(r"(?:Action property|Invariant|property) (\w+) is violated", outp))
            raise TlcError(f"violated: {named or '?'}\n" + outp[-3000:])
        m = re.search(r"(\d+) states generated, (\d+) distinct states found, (\d+) states left", outp)
        d = re.search(r"depth of the complete state graph search is (\d+)", outp)
        stats = {"tlc_states_generated": int(m.group(1)), "tlc_distinct_states": int(m.group(2)), "tlc_depth": int(d.group(1)) if d else -1}
        with open(os.path.join(work, "g.dot")) as f:
            return f.read(), stats
    finally:
        shutil.rmtree(work, ignore_errors=True)


_NODE = re.compile(r'^(-?\d+) \[label="((?:[^"\\]|\\.)*)"')
_EDGE = re.compile(r"^(-?\d+) -> (-?\d+) ")


def _parse_state(label: str) -> t.Dict[str, t.Any]:
    text = label.replace('\\"', '"').replace("\\\\", "\\")  # dot escaping: \" and \\ (the latter in "/\\")
    out: t.Dict[str, t.Any] = {}
    for part in text.split("\\n"):
        part = part.strip()
        if part.startswith("/\\"):
            part = part[2:].strip()
        name, _, val = part.partition(" = ")
        val = val.replace("<<", "[").replace(">>", "]").replace("TRUE", "true").replace("FALSE", "false")
        out[name.strip()] = json.loads(val)
    return out


def load_graph(dot: str) -> t.Tuple[Proj, t.Dict[t.Tuple[Proj, Ev], t.Tuple[bool, str, str, Proj]], int, int]:
    nodes: t.Dict[str, t.Dict[str, t.Any]] = {}
    edges: t.List[t.Tuple[str, str]] = []
    for line in dot.splitlines():
        m = _EDGE.match(line)
        if m:
            edges.append((m.group(1), m.group(2)))
            continue
        m = _NODE.match(line)
        if m:
            nodes[m.group(1)] = _parse_state(m.group(2))

    def proj(s: t.Dict[str, t.Any]) -> Proj:
        return (s["st"], tuple(s["prog"]), s["nxt"])

    init = [s for s in nodes.values() if s["ev"][0] == "init"]
    assert len(init) == 1, "one initial state expected"
    delta: t.Dict[t.Tuple[Proj, Ev], t.Tuple[bool, str, str, Proj]] = {}
    for u, v in edges:
        su, sv = nodes[u], nodes[v]
        key = (proj(su), (sv["ev"][0], sv["ev"][1], sv["ev"][2]))
        val = (sv["ok"], sv["out"], sv["eresp"], proj(sv))
        if delta.setdefault(key, val) != val:
            raise TlcError(f"the model is not deterministic at {key}: {delta[key]} / {val}")
    return proj(init[0]), delta, len(nodes), len(edges)


# ---------------------------------------------------------------------------------------
# the real side
OP_KIND = {0: "BindReq", 1: "BindResp", 2: "Unbind", 3: "SearchReq", 4: "Entry", 5: "Done", 19: "Ref", 23: "ExtReq", 24: "ExtResp"}


def wire_kind(data: t.Optional[bytes]) -> t.Tuple[str, t.Optional[int]]:
    """('none' | kind of the single PDU | 'several' | 'unreadable', message id)."""
    if not data:
        return "none", None
    units, used = ber.frame(bytes(data))
    if used != len(data) or not units:
        return "unreadable", None
    if len(units) != 1:
        return "several", None
    try:
        node, _ = ber.parse_one(bytes(data), 0, strict=False)
        mid = ber.int_value(node.children[0].content)
        op = node.children[1]
        kind = OP_KIND.get(op.num, f"app{op.num}") if op.cls == 1 else "unreadable"
        if kind == "ExtResp":
            for c in op.children or []:
                if c.cls == 2 and c.num == 10 and c.content == sess.NOTICE.encode():
                    kind = "Notice"
        return kind, mid
    except (ber.BerError, IndexError, TypeError):
        return "unreadable", None


MODES = ("whole", "split", "peer")


def apply_real(role: str, s: t.Any, ev: Ev, mode: str) -> t.Any:
    kind, name, i = ev
    if kind == "call":
        if name == "unbind":
            return s.unbind()
        return sess.CLIENT_CALLS[name](s) if role == "client" else sess.SERVER_CALLS[name](s, i)
    if name == "garbage":
        data = sess.GARBAGE
    elif mode == "peer":
        data = sess._peer_bytes(name, i)
    else:
        data = sess.make_msg(name, i).pack(sess.OPT)
    if mode == "split" and len(data) > 1:
        cut = min(3, len(data) - 1)
        first = s.receive(data[:cut])
        return first + s.receive(data[cut:])
    return s.receive(data)


class Obs(t.NamedTuple):
    ok: bool
    exc: str
    st: str
    out: str
    out_id: t.Optional[int]
    eresp: str
    ret: t.Any


def observe(role: str, s: t.Any, ev: Ev, mode: str) -> t.Tuple[t.Any, Obs]:
    s2 = copy.deepcopy(s)
    exc: t.Optional[BaseException] = None
    ret = None
    try:
        ret = apply_real(role, s2, ev, mode)
    except BaseException as e:  # noqa: BLE001
        exc = e
    out, out_id = wire_kind(s2.data_to_send())
    eresp = "none"
    if exc is not None:
        eresp = wire_kind(getattr(exc, "response", None))[0]
    cls = "" if exc is None else ("ProtocolError" if isinstance(exc, L.ProtocolError) else "LDAPError" if isinstance(exc, L.LDAPError) else type(exc).__name__)
    return s2, Obs(exc is None, cls, s2.state.name, out, out_id, eresp, ret)


def compare(role: str, pre: Proj, ev: Ev, want: t.Tuple[bool, str, str, Proj], got: Obs, mode: str) -> t.List[t.Tuple[str, str, str]]:
    """-> [(property, key, what)] for every disagreement between the model edge and the real step."""
    ok, out, eresp, post = want
    kind, name, i = ev
    v: t.List[t.Tuple[str, str, str]] = []
    where = f"{role} in model state {pre} on {kind} {name}({i}) [{mode}]"

    def add(prop: str, field: str, what: str) -> None:
        v.append((prop, f"model-mismatch:{role}:{kind}:{name}:{field}", f"{where}: {what}"))

    if got.ok != ok:
        prop = "C09" if role == "client" and kind == "recv" else "C10" if role == "server" and kind == "call" and name != "unbind" else "C08"
        add(prop, "accepted" if got.ok else "refused", f"model says {'accepted' if ok else 'refused'}, the session {'returned normally' if got.ok else 'raised ' + got.exc}")
    if not got.ok and got.exc != ("LDAPError" if kind == "call" else "ProtocolError"):
        add("C10" if kind == "call" else "C08", f"raises-{got.exc}", f"raised {got.exc}")
    if got.st != post[0]:
        if role == "server" and pre[0] == "BEFORE_OPEN" and got.st == "OPENED" and kind == "call" and name != "unbind" and not got.ok and not ok:
            v.append(("C08", "h-refused-response-opens-fresh-server", f"server {name}({i}) was refused but state went BEFORE_OPEN -> OPENED"))
        else:
            add("C08", f"state-{post[0]}-vs-{got.st}", f"model state afterwards {post[0]}, session state {got.st}")
    if got.out != out:
        add("C10" if kind == "call" else "C08", f"out-{out}-vs-{got.out}", f"model: {out} appended to the outgoing stream; drained: {got.out}")
    elif out != "none" and out != "Unbind":
        want_id = pre[2] if role == "client" else i
        if got.out_id != want_id:
            add("C09" if role == "client" else "C10", "wire-id", f"emitted message carries id {got.out_id}, expected {want_id}")
        if role == "client" and got.ok and got.ret != want_id:
            add("C09", "returned-id", f"call returned id {got.ret!r}, expected {want_id}")
    if got.eresp != eresp:
        add("C08", f"error-response-{eresp}-vs-{got.eresp}", f"model: error carries {eresp}; real: {got.eresp}")
    if kind == "recv" and got.ok and (not isinstance(got.ret, list) or len(got.ret) != 1):
        add("C08", "delivery-count", f"receive returned {got.ret!r} for one PDU")
    return v


class Product(t.NamedTuple):
    states: int
    transitions: int
    model_states: int
    model_edges: int
    edges_exercised: int
    edges_total: int
    levels: t.List[int]
    violations: t.Dict[t.Tuple[str, str], t.Dict[str, t.Any]]
    unexercised: t.List[str]
    outcomes: int


STATE_CAP = 20000


def product(role: str, k: int, init: Proj, delta: t.Dict[t.Tuple[Proj, Ev], t.Tuple[bool, str, str, Proj]], known: t.Set[t.Tuple[str, str]]) -> Product:
    by_state: t.Dict[Proj, t.List[Ev]] = collections.defaultdict(list)
    for (p, ev) in delta:
        by_state[p].append(ev)
    for evs in by_state.values():
        evs.sort()
    s0 = L.LDAPClient() if role == "client" else L.LDAPServer()
    seen = {(A.freeze(s0), init)}
    frontier: t.List[t.Tuple[t.Any, Proj, t.Tuple[t.Tuple[Ev, str], ...]]] = [(s0, init, ())]
    exercised: t.Set[t.Tuple[Proj, Ev]] = set()
    viol: t.Dict[t.Tuple[str, str], t.Dict[str, t.Any]] = {}
    outcomes: t.Set[t.Any] = set()
    ntrans = 0
    levels = [1]
    capped = False
    while frontier and not capped:
        nxt: t.List[t.Tuple[t.Any, Proj, t.Tuple[t.Tuple[Ev, str], ...]]] = []
        for s, p, hist in frontier:
            for ev in by_state.get(p, ()):
                want = delta[(p, ev)]
                for mode in MODES if ev[0] == "recv" and ev[1] != "garbage" else ("whole",):
                    s2, got = observe(role, s, ev, mode)
                    ntrans += 1
                    exercised.add((p, ev))
                    outcomes.add((ev[0], ev[1], p[0], got.ok, got.st, got.out, got.eresp))
                    bad = compare(role, p, ev, want, got, mode)
                    expand = True
                    for prop, key, what in bad:
                        e = viol.setdefault((prop, key), {"what": what, "history": [list(h) for h in hist + ((ev, mode),)], "count": 0})
                        e["count"] += 1
                        if (prop, key) not in known:
                            expand = False
                    if bad and all((pr, ky) in known for pr, ky, _ in bad):
                        # a listed finding: continue from the state the model prescribes only if the real object is there
                        expand = got.st == want[3][0]
                    if not expand:
                        continue
                    key2 = (A.freeze(s2), want[3])
                    if key2 not in seen:
                        seen.add(key2)
                        nxt.append((s2, want[3], hist + ((ev, mode),)))
                        if len(seen) > STATE_CAP:
                            capped = True
                            break
                if capped:
                    break
            if capped:
                break
        frontier = nxt
        if nxt:
            levels.append(len(nxt))
    un = [f"{p} {ev}" for (p, ev) in delta if (p, ev) not in exercised]
    return Product(len(seen), ntrans, len(by_state), len(delta), len(exercised), len(delta), levels + (["CAP"] if capped else []), viol, un, len(outcomes))  # type: ignore[list-item]


def check(ctx: t.Any, prop: str, roles: t.Sequence[str], k: int) -> None:
    """Run TLC + the product for each role and report under `prop` (disagreements are attributed to
    C08 / C09 / C10 by what they concern; only those of `prop` are reported by this run)."""
    known = set(ctx.known)
    for role in roles:
        try:
            dot, stats = run_tlc(role, k)
        except TlcError as e:
            if "violated:" in str(e).splitlines()[0] and "violated: ?" not in str(e).splitlines()[0]:
                raise RuntimeError(f"TLC did not verify tla/Lifecycle.tla for {role}, K={k}:\n{e}") from e
            # TLC itself could not be run here (no java, no tlc on PATH): the model binding is skipped and says so; the
            # monitors on the real-object search, which decide the property on their own, have run as usual
            ctx.note(f"tla_{role}_SKIPPED", f"tlc could not be run: {str(e)[-300:]}")
            print(f"NOTE: TLA+ model binding for the {role} skipped: tlc could not be run")
            continue
        except (OSError, subprocess.SubprocessError) as e:
            ctx.note(f"tla_{role}_SKIPPED", f"tlc could not be run: {type(e).__name__}: {e}")
            print(f"NOTE: TLA+ model binding for the {role} skipped: tlc could not be run")
            continue
        init, delta, nn, ne = load_graph(dot)
        res = product(role, k, init, delta, {(p, ky) for (p, ky) in known})
        ctx.add("states", res.states)
        ctx.add("transitions", res.transitions)
        ctx.add("tla_model_states", stats["tlc_distinct_states"])
        ctx.add("tla_model_edges_replayed", res.edges_exercised)
        ctx.add("traces_validated_against_impl", res.transitions)  # every product step replays one model edge on the real object
        ctx.add("tla_product_states", res.states)
        ctx.note(f"tla_{role}", {**stats, "K": k, "dump_nodes": nn, "dump_edges": ne, "model_states_without_event_record": res.model_states, "model_edges": res.edges_total,
                                 "model_edges_exercised_by_real_code": res.edges_exercised, "product_states": res.states, "product_transitions": res.transitions,
                                 "product_levels": res.levels, "distinct_outcomes": res.outcomes, "properties_checked_by_tlc": PROPERTIES})  # fmt: skip
        for i in range(res.outcomes):
            ctx.distinct.add(("tla", role, i))
        if "CAP" in res.levels:
            ctx.note(f"tla_{role}_INCOMPLETE", f"product state cap {STATE_CAP} reached: the real object has more states than the model bound allows; covered levels {res.levels}")
            ctx.exhaustive = False
            print(f"INCOMPLETE: model/code product for the {role} stopped at the state cap ({res.states} states); see evidence")
        elif res.unexercised and not res.violations:
            # the model has an edge the code never reached although every step agreed: the binding is broken
            ctx.violation(f"model-edge-unreachable:{role}", f"{len(res.unexercised)} model edges were never reached by the real {role}, e.g. {res.unexercised[0]}", {"role": role, "K": k, "tla": True, "history": []}, len(res.unexercised))
        for (p, key), e in sorted(res.violations.items()):
            if p != prop:
                continue
            ctx.violation(key, e["what"], {"role": role, "K": k, "tla": True, "history": e["history"]}, e["count"])


def replay(case: t.Dict[str, t.Any], prop: str, key: t.Optional[str]) -> t.Tuple[bool, str]:
    role, k = case["role"], case["K"]
    dot, _ = run_tlc(role, k)
    init, delta, _, _ = load_graph(dot)
    s: t.Any = L.LDAPClient() if role == "client" else L.LDAPServer()
    p = init
    lines = []
    ok_all = True
    for evl, mode in case["history"]:
        ev = (evl[0], evl[1], evl[2])
        want = delta.get((p, ev))
        if want is None:
            return True, "\n".join(lines + [f"  {ev}: not enabled in the model at {p} (history no longer applies)"])
        s, got = observe(role, s, ev, mode)
        bad = [b for b in compare(role, p, ev, want, got, mode) if b[0] == prop and (key is None or b[1] == key)]
        lines.append(f"  {ev} [{mode}]: model {want[:3]} -> {want[3]}; real ok={got.ok} {got.exc} state={got.st} out={got.out} eresp={got.eresp}")
        for b in bad:
            ok_all = False
            lines.append(f"    {b[1]}: {b[2]}")
        p = want[3]
    return ok_all, "\n".join(lines)


# ---------------------------------------------------------------------------------------
# The clauses TLC checks are not vacuous: each of these edits of the model must be rejected by TLC.
MODEL_EDITS: t.List[t.Tuple[str, str, str, str]] = [
    # (role, text in the module, replacement, the clause expected to fail)
    ("client", 'IF st = "CLOSED" THEN Refused(e)\n    ELSE IF name = "unbind" THEN Accepted(e, "CLOSED", Idle, nxt, "Unbind")\n    ELSE IF name \\in BindCalls THEN',
     'IF st = "CLOSED" /\\ name # "ext" THEN Refused(e)\n    ELSE IF name = "unbind" THEN Accepted(e, "CLOSED", Idle, nxt, "Unbind")\n    ELSE IF name \\in BindCalls THEN', "ClosedIsFinal"),
    ("client", "IF Busy THEN Refused(e)\n        ELSE /\\ nxt <= K\n             /\\ Accepted(e, \"BINDING\"", "IF FALSE THEN Refused(e)\n        ELSE /\\ nxt <= K\n             /\\ Accepted(e, \"BINDING\"", "BindNeedsIdle"),
    ("client", 'IF st = "BINDING" THEN Refused(e)\n        ELSE /\\ nxt <= K\n             /\\ Accepted(e, "OPENED"', 'IF FALSE THEN Refused(e)\n        ELSE /\\ nxt <= K\n             /\\ Accepted(e, "OPENED"', "BindingLeft"),
    ("client", 'ELSE IF P(i) = "none" THEN Closes(e, "Unbind")', 'ELSE IF P(i) = "none" /\\ i # 0 THEN Closes(e, "Unbind")', "AcceptedIffInProgress"),
    ("client", 'Accepted(e, st, IF kind = "Done" THEN [prog EXCEPT ![i + 1] = "none"] ELSE prog, nxt, "none")', 'Accepted(e, st, IF kind # "Ref" THEN [prog EXCEPT ![i + 1] = "none"] ELSE prog, nxt, "none")', "SearchStays"),
    ("client", 'ELSE Accepted(e, IF kind \\in FinalBind THEN "OPENED" ELSE st, [prog EXCEPT ![i + 1] = "none"], nxt, "none")', 'ELSE Accepted(e, IF kind \\in FinalBind \\cup {"BindResp-sasl"} THEN "OPENED" ELSE st, [prog EXCEPT ![i + 1] = "none"], nxt, "none")', "BindingLeft"),
    ("server", 'ELSE IF st = "BINDING" /\\ name \\notin BindCalls \\cup {"notice"} THEN Refused(e)', 'ELSE IF st = "BINDING" /\\ name \\notin BindCalls \\cup {"notice", "entry"} THEN Refused(e)', "OnlyBindTrafficWhileBinding"),
    ("server", 'ELSE IF P(i) = "none" THEN Refused(e)\n    ELSE Accepted(e,', 'ELSE IF P(i) = "none" /\\ (name # "done" \\/ st = "BEFORE_OPEN") THEN Refused(e)\n    ELSE Accepted(e,', "OnlyOutstandingAnswered"),
    ("server", 'IF name = "notice" THEN Idle ELSE IF name \\in {"entry", "ref"} THEN prog ELSE', 'IF name = "notice" THEN Idle ELSE IF name \\in {"entry", "ref", "ext_response"} THEN prog ELSE', "FinalRetires"),
    ("server", 'IF Busy THEN Closes(e, "Notice")\n        ELSE Accepted(e, "BINDING"', 'IF FALSE THEN Closes(e, "Notice")\n        ELSE Accepted(e, "BINDING"', "BindNeedsIdle"),
    ("server", 'ELSE Accepted(e, IF st = "BEFORE_OPEN" THEN "OPENED" ELSE st, [prog EXCEPT ![i + 1] = "req"], nxt, "none")', 'ELSE Accepted(e, st, [prog EXCEPT ![i + 1] = "req"], nxt, "none")', "OpensOnFirstTraffic"),
    ("server", 'Refused(e) == /\\ ev\' = e /\\ ok\' = FALSE /\\ out\' = "none" /\\ eresp\' = "none"\n              /\\ UNCHANGED <<st, prog, nxt>>',
     'Refused(e) == /\\ ev\' = e /\\ ok\' = FALSE /\\ out\' = "none" /\\ eresp\' = "none"\n              /\\ prog\' = Idle /\\ UNCHANGED <<st, nxt>>', "RefusedCallIsInvisible"),
]  # fmt: skip


def model_sensitivity(k: int = 2) -> t.Tuple[int, t.List[str]]:
    """-> (edits rejected by TLC, problems).  Every listed edit of the model must make TLC fail, on the expected clause."""
    with open(os.path.join(TLA_DIR, "Lifecycle.tla")) as f:
        base = f.read()
    rejected = 0
    problems = []
    for role, old, new, clause in MODEL_EDITS:
        if base.count(old) != 1:
            problems.append(f"edit for {clause}: anchor text occurs {base.count(old)} times in the module")
            continue
        try:
            run_tlc(role, k, base.replace(old, new), invariant=False)
            problems.append(f"TLC accepted a model in which {clause} should fail")
        except TlcError as e:
            if clause in str(e).splitlines()[0]:
                rejected += 1
            else:
                problems.append(f"edit for {clause}: TLC failed, but not on that clause: {str(e)[-400:]}")
    return rejected, problems
