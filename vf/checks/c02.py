"""C02 -- message reassembly is independent of how the byte stream is chunked.

State-merging search: for a stream s (n bytes) the explorer's states are the columns k = bytes
delivered so far (0..n).  From column k every chunk s[k:j], j in [k, n] (j = k is the empty
chunk) is delivered to a copy of column k's real session, in three container flavours.  Every
edge into column j must produce the same canonical session state and the same cumulative
message list as the first edge that reached j (the single delivery s[:j]); by induction on the
number of chunks this covers all 2^(n-1) partitions with (n+1)(n+2)/2 edges.
"""
from __future__ import annotations

import copy
import typing as t

import sansldap as L

from vf import abs as A
from vf import universe as U
from vf.checks import common as K
from vf.engine import evid, par
from vf.ref import ber

FLAVOURS = ["bytes", "bytearray", "memoryview"]
SPARSE_ABOVE = 400  # streams longer than this use the sparse column set


def same_message(orig: t.Any, got: t.Any) -> t.Optional[str]:
    from vf.checks import c04

    return c04.same_message(orig, got)


def peer_encode(m: t.Any, form: str) -> bytes:
    """The message as a conforming peer would send it: reference encoder, non-minimal length forms
    (form '84' = the fixed 4-octet lengths Active Directory emits; 'mixed' cycles 81/82/84/85/min)."""
    from vf.checks import c04

    tree = c04.build_tree(m)
    n = len(c04.all_nodes(tree))
    cyc = ["81", "82", "84", "85", None]
    chosen = [(i, "len", form if form != "mixed" else cyc[i % 5]) for i in range(n)]
    return c04.render(tree, [c for c in chosen if c[2]])


class Stream:
    def __init__(self, role: str, prelude: t.List[str], msgs: t.List[t.Any], tail: int, note: str, encoding: str = "lib") -> None:
        self.role = role
        self.prelude = prelude  # client calls issued before the stream (so the responses are expected)
        self.msgs = msgs
        self.tail = tail  # 0: ends on a PDU boundary; -1: last byte missing; +1: one byte of a further PDU
        self.note = note
        self.encoding = encoding  # 'lib' = the library's own encoding; '84' / 'mixed' = a peer's non-minimal lengths

    def data(self) -> bytes:
        if self.encoding == "lib":
            b = b"".join(m.pack(K.OPTS) for m in self.msgs)
        else:
            b = b"".join(peer_encode(m, self.encoding) for m in self.msgs)
        if self.tail < 0:
            b = b[: self.tail]
        elif self.tail > 0:
            b += K.UNBIND_PDU[: self.tail]
        return b

    def describe(self) -> t.Dict[str, t.Any]:
        return {"role": self.role, "prelude": self.prelude, "msgs": [A.src(m) for m in self.msgs], "tail": self.tail, "encoding": self.encoding}


PRELUDES: t.Dict[str, t.Callable[[t.Any], t.Any]] = {
    "search": lambda c: c.search_request(),
    "ext": lambda c: c.extended_request("1.2"),
    "bind": lambda c: c.bind_simple(),
}


def session_for(st: Stream) -> t.Any:
    if st.role == "server":
        return L.LDAPServer()
    c = L.LDAPClient()
    for p in st.prelude:
        PRELUDES[p](c)
    c.data_to_send()
    return c


def _with_id(m: t.Any, i: int) -> t.Any:
    import dataclasses

    return dataclasses.replace(m, message_id=i)


def catalogue(thorough: bool) -> t.List[Stream]:
    ks = U.kinds()
    by_kind: t.Dict[str, t.List[t.Any]] = {}
    for job in U.jobs(ks, 1):
        if job[2] != "dev" or len(job[1]) != 1:
            continue
        for m, paths in U.enumerate_job(ks, job):
            if paths == ("message_id",):
                continue
            by_kind.setdefault(type(m).__name__, []).append(m)
    out: t.List[Stream] = []
    lim = 150 if thorough else 110

    def pick(kind: str, n: int, lo: int = 0, hi: int = 10**9) -> t.List[t.Any]:
        c = [m for m in by_kind[kind] if lo <= len(m.pack(K.OPTS)) <= hi]
        if not c:
            return []
        stepn = max(1, len(c) // n)
        return c[::stepn][:n]

    nsingle = 24 if thorough else 5
    # server side: requests
    for kind in ("BindRequest", "SearchRequest", "ExtendedRequest"):
        for m in pick(kind, nsingle, 0, lim):
            out.append(Stream("server", [], [_with_id(m, 1)], 0, "single"))
    sr = pick("SearchRequest", 6 if thorough else 3, 20, 60)
    er = pick("ExtendedRequest", 6 if thorough else 3, 8, 40)
    for a in sr:
        for b in er:
            out.append(Stream("server", [], [_with_id(a, 1), _with_id(b, 2)], 0, "pair"))
    out.append(Stream("server", [], [_with_id(sr[0], 1), _with_id(er[0], 2), _with_id(sr[-1], 3)], 0, "triple"))
    out.append(Stream("server", [], [_with_id(er[0], 7), _with_id(er[-1], 7), _with_id(sr[0], 2**31)], 0, "triple-dup-id"))
    for tail in (-1, 1, 3):
        out.append(Stream("server", [], [_with_id(sr[0], 1), _with_id(er[0], 2)], tail, "off-boundary"))
    # client side: responses to requests issued first
    ent = pick("SearchResultEntry", 8 if thorough else 3, 8, 70)
    ref = pick("SearchResultReference", 4 if thorough else 2, 8, 40)
    don = pick("SearchResultDone", 6 if thorough else 2, 8, 50)
    ext = pick("ExtendedResponse", 6 if thorough else 2, 8, 50)
    bnd = pick("BindResponse", 6 if thorough else 2, 8, 50)
    for e in ent:
        for d in don:
            out.append(Stream("client", ["search"], [_with_id(e, 1), _with_id(d, 1)], 0, "entry+done"))
    for r in ref:
        out.append(Stream("client", ["search", "ext"], [_with_id(r, 1), _with_id(ext[0], 2), _with_id(don[0], 1)], 0, "ref+ext+done"))
    for x in ext:
        out.append(Stream("client", ["ext"], [_with_id(x, 1)], 0, "extresp"))
    for b in bnd:
        out.append(Stream("client", ["bind"], [_with_id(b, 1)], 0, "bindresp"))
    for tail in (-1, 2):
        out.append(Stream("client", ["search"], [_with_id(ent[0], 1), _with_id(ent[-1], 1)], tail, "off-boundary"))
    # the same kinds of stream as a conforming peer with non-minimal length octets would send them
    for enc in ("84", "mixed"):
        out.append(Stream("server", [], [_with_id(sr[0], 1), _with_id(er[0], 2)], 0, "peer-" + enc, enc))
        out.append(Stream("server", [], [_with_id(er[-1], 1)], 1, "peer-" + enc, enc))
        out.append(Stream("client", ["search"], [_with_id(ent[0], 1), _with_id(don[0], 1)], 0, "peer-" + enc, enc))
        out.append(Stream("client", ["bind"], [_with_id(bnd[-1], 1)], 0, "peer-" + enc, enc))
    # long PDUs (long-form lengths): one >255-byte message
    big = L.SearchResultEntry(1, [], "cn=" + "a" * 130, [L.PartialAttribute("m", [b"x" * 140, b"y"])])
    out.append(Stream("client", ["search"], [big, L.SearchResultDone(1, [], L.LDAPResult(L.LDAPResultCode.SUCCESS, "", "", None))], 0, "long"))
    # well-known operations a session might treat specially (StartTLS), followed by further messages
    tls = "1.3.6.1.4.1.1466.20037"
    ok = L.LDAPResult(L.LDAPResultCode.SUCCESS, "", "", None)
    out.append(Stream("server", [], [L.ExtendedRequest(1, [], tls, None), _with_id(sr[0], 2), _with_id(er[0], 3)], 0, "starttls-then-more"))
    out.append(Stream("client", ["ext", "search"], [L.ExtendedResponse(1, [], ok, tls, None), _with_id(ent[0], 2), _with_id(don[0], 2)], 0, "starttls-then-more"))
    out.append(Stream("client", ["search", "ext"], [_with_id(ent[0], 1), L.ExtendedResponse(2, [], ok, tls, b""), _with_id(don[0], 1)], 1, "starttls-then-more"))
    # many small messages in one stream (a page of search results), and a 1.5 KB message followed by short ones
    page = [L.SearchResultEntry(1, [], "cn=%d" % i, [L.PartialAttribute("a", [b"%d" % i])]) for i in range(24)] + [_with_id(don[0], 1)]
    out.append(Stream("client", ["search"], page, 0, "page-of-25"))
    out.append(Stream("server", [], [L.ExtendedRequest(i + 1, [], "1.2", b"%d" % i) for i in range(30)], 1, "thirty-requests"))
    kb = L.ExtendedRequest(1, [], "1.2", b"k" * 1500)
    out.append(Stream("server", [], [kb, _with_id(er[0], 2), L.UnbindRequest(3, [])][:2] + [_with_id(sr[0], 3)], 0, "1.5KB-then-short"))
    out.append(Stream("client", ["search"], [L.SearchResultEntry(1, [], "cn=big", [L.PartialAttribute("a", [b"k" * 1400])]), _with_id(ent[0], 1), _with_id(don[0], 1)], 0, "1.5KB-then-short"))
    # 3-octet lengths (>= 65536): explored on the sparse column set around headers and boundaries
    huge = L.SearchResultEntry(1, [], "cn=x", [L.PartialAttribute("jpegPhoto", [b"\xff" * 66000])])
    out.append(Stream("client", ["search"], [huge, _with_id(don[0], 1)], 0, "3-octet-length"))
    hugereq = L.ExtendedRequest(1, [], "1.2", b"v" * 65536)
    out.append(Stream("server", [], [hugereq, _with_id(er[0], 2)], 2, "3-octet-length-off-boundary"))
    # content that looks like another protocol's framing when a chunk happens to start with it (a TLS record header, an HTTP
    # verb, a second LDAPMessage), and a version-2 bind followed by non-ASCII text (nothing the first message says may change
    # how the octets of the next one are read, wherever the cut falls)
    odd = b"\x16\x03\x01\x02\x00\x01\x00" + b"\x17\x03\x03\x00\x10" + b"GET / HTTP/1.1\r\n" + b"\x30\x0c\x02\x01\x01\x60\x07\x02\x01\x03\x04\x00\x80\x00" + b"\x15\x03\x04"
    out.append(Stream("server", [], [L.ExtendedRequest(1, [], "1.2", odd), L.ExtendedRequest(2, [], "1.2", odd[7:])], 0, "foreign-framing-in-values"))
    out.append(Stream("client", ["search"], [L.SearchResultEntry(1, [], "cn=x", [L.PartialAttribute("objectGUID", [odd, odd[7:12], odd[12:]])]), _with_id(don[0], 1)], 0, "foreign-framing-in-values"))
    out.append(Stream("server", [], [L.BindRequest(1, [], 2, "cn=J\u00fcrgen", L.SimpleCredential("p\u00e4ss")), L.SearchRequest(2, [], "ou=Caf\u00e9,dc=x", L.SearchScope.SUBTREE, L.DereferencingPolicy.NEVER, 0, 0, False, L.FilterEquality("cn", "M\u00fcller".encode()), ["cn"])], 0, "v2-bind-then-non-ascii"))
    # more messages in one stream than a per-call limit would plausibly allow (1000, 1024): however they are delivered, all arrive
    out.append(Stream("client", ["search"], [L.SearchResultEntry(1, [], "cn=%d" % i, []) for i in range(1100)] + [_with_id(don[0], 1)], 0, "1100-entries"))
    out.append(Stream("server", [], [L.ExtendedRequest(i + 1, [], "1.2", None) for i in range(1100)], 0, "1100-requests"))
    # messages above the sizes at which an implementation might start to treat pending data differently (256 KiB, 1 MiB, 16 MiB)
    out.append(Stream("client", ["search"], [L.SearchResultEntry(1, [], "cn=x", [L.PartialAttribute("jpegPhoto", [b"\xfe" * 300_000])]), _with_id(don[0], 1)], 0, "300KB-value"))
    out.append(Stream("server", [], [L.ExtendedRequest(1, [], "1.2", b"w" * 1_200_000), _with_id(er[0], 2)], 1, "1.2MB-value-off-boundary"))
    if thorough:
        out.append(Stream("client", ["ext", "search"], [L.ExtendedResponse(1, [], ok, None, b"W" * 17_000_000), _with_id(don[0], 2)], 0, "17MB-value"))
    if thorough:
        bigreq = L.SearchRequest(1, [L.PagedResultControl(True, 500, b"c" * 200)], "dc=" + "x" * 200, L.SearchScope.SUBTREE, L.DereferencingPolicy.NEVER, 0, 0, False, L.FilterEquality("cn", b"v" * 150), ["a" * 128])
        out.append(Stream("server", [], [bigreq, _with_id(er[0], 2)], 0, "long"))
        out.append(Stream("server", [], [_with_id(er[0], 1), bigreq, _with_id(er[0], 3)], 1, "long-off-boundary"))
    return out


def _container(flavour: str, chunk: bytes) -> t.Any:
    if flavour == "bytes":
        return chunk
    if flavour == "bytearray":
        return bytearray(chunk)
    return memoryview(bytearray(chunk))


def _scribble(flavour: str, buf: t.Any) -> t.Optional[str]:
    """The caller reuses its input buffer right after receive returns."""
    if flavour not in ("bytearray", "memoryview"):
        return None
    base = buf if flavour == "bytearray" else buf.obj
    for i in range(len(base)):
        base[i] = 0xEE
    if flavour == "memoryview":
        buf.release()
    for attempt in (0, 1):
        try:
            base.extend(b"\xee" * 7)
            del base[:]
            return None
        except BufferError as e:
            if attempt == 0:
                # a view kept alive only by garbage (an exception's traceback in a reference cycle) is not the session's
                import gc

                gc.collect()
            else:
                return f"the session still holds an export of the caller's buffer: {e}"
    return None


def _mk(m: t.Any) -> str:
    """A message as a comparable string; very large ones (MB-sized values) as a digest of that string."""
    x = A.src(m)
    if len(x) <= 65536:
        return x
    import hashlib

    return f"<{type(m).__name__} {len(x)} chars sha256 {hashlib.sha256(x.encode('utf-8', 'surrogatepass')).hexdigest()}>"


def column_set(n: int, ends: t.List[int], sparse: bool) -> t.List[int]:
    """All columns, or -- for streams too long for (n+1)(n+2)/2 edges -- the columns around every
    header and PDU boundary (where every branch of the reassembly code is decided)."""
    if not sparse:
        return list(range(n + 1))
    if len(ends) > 300:  # a thousand and more small messages: the first and last few boundaries and the middle
        cols = set(range(0, 7)) | {n - 2, n - 1, n, n // 2}
        for e in ends[:2] + ends[-3:] + [ends[len(ends) // 2]]:
            cols |= {c for c in (e - 1, e, e + 1) if 0 <= c <= n}
        return sorted(cols)
    if n > 2_000_000:  # multi-megabyte streams: the header, the ends and every PDU boundary only
        cols = set(range(0, 7)) | {n - 2, n - 1, n, n // 2}
        for e in ends:
            cols |= {c for c in (e - 1, e, e + 1, e + 3) if 0 <= c <= n}
        return sorted(cols)
    cols = set(range(0, min(n, 14) + 1)) | set(range(max(0, n - 4), n + 1))
    wide = len(ends) <= 6
    for e in [0] + ends:
        cols |= {c for c in range(e - 4, e + (14 if wide else 7)) if 0 <= c <= n}
    cols |= {n // 2, n // 3}
    return sorted(cols)


def _continuations(n: int, j: int, ends: t.List[int]) -> t.List[t.List[int]]:
    """Cut lists (absolute positions > j) for delivering the rest of the stream: whole, the next 16 octets one by one,
    and split once around the next PDU boundaries and just after j."""
    if j >= n:
        return [[]]
    outs: t.List[t.List[int]] = [[], [p for p in range(j + 1, min(n, j + 17))]]
    pts = {j + 1, j + 2, j + 5}
    for e in [x for x in ends if x > j][:2]:
        pts |= {e - 1, e, e + 1, e + 3}
    outs += [[p] for p in sorted(pts) if j < p < n][:10]
    return outs


def _run_rest(sess_obj: t.Any, s: bytes, j: int, cuts: t.List[int]) -> t.Any:
    c = copy.deepcopy(sess_obj)
    obs: t.List[t.Any] = []
    pos = j
    for q in cuts + [len(s)]:
        try:
            obs.append([_mk(m) for m in c.receive(s[pos:q])])
        except BaseException as e:  # noqa: BLE001
            obs.append(("raises", type(e).__name__))
            break
        pos = q
    return obs, A.public_view(c), copy.deepcopy(c).data_to_send()


def behaviour_differs(a: t.Any, b: t.Any, s: bytes, j: int, ends: t.List[int]) -> t.Optional[str]:
    if A.public_view(a) != A.public_view(b):
        return f"visible attributes {A.public_view(a)} / {A.public_view(b)}"
    if copy.deepcopy(a).data_to_send() != copy.deepcopy(b).data_to_send():
        return "pending output differs"
    n = len(s)
    if j < n:
        for cuts in _continuations(n, j, ends):
            ra, rb = _run_rest(a, s, j, cuts), _run_rest(b, s, j, cuts)
            if ra != rb:
                return f"delivering the rest of the stream cut at {cuts} gives {str(ra)[:200]} / {str(rb)[:200]}"
    else:
        # at the end of the stream: the same stream once more (whatever a session makes of it, both must agree)
        for cuts in ([], [min(5, n - 1)] if n > 1 else []):
            ra, rb = _run_rest(a, s + s, n, [n + q for q in cuts]), _run_rest(b, s + s, n, [n + q for q in cuts])
            if ra != rb:
                return f"delivering the stream again gives {str(ra)[:200]} / {str(rb)[:200]}"
    return None


def explore_stream(st: Stream, flavours: t.List[str]) -> evid.Local:
    loc = evid.Local()
    s = st.data()
    n = len(s)
    units, _ = ber.frame(s)
    ends = [e for _s, e in units]

    def expected_count(j: int) -> int:
        return sum(1 for e in ends if e <= j)

    case = st.describe()
    # column references: single delivery of s[:j] to a fresh session
    col_state: t.List[t.Any] = [None] * (n + 1)
    col_sess: t.List[t.Any] = [None] * (n + 1)
    col_msgs: t.List[t.Any] = [None] * (n + 1)
    base = session_for(st)
    cols = column_set(n, ends, n > SPARSE_ABOVE)
    for j in cols:
        c = copy.deepcopy(base)
        try:
            msgs = c.receive(s[:j]) if j else []
        except BaseException as e:  # noqa: BLE001
            loc.violation(f"single-delivery-raises:{type(e).__name__}", f"delivering the first {j} bytes of a well-formed stream raised {type(e).__name__}: {e}", {**case, "cuts": [j]})
            return loc
        if len(msgs) != expected_count(j):
            loc.violation("single-delivery-count", f"{j} bytes hold {expected_count(j)} complete PDUs but receive returned {len(msgs)}", {**case, "cuts": [j]})
            return loc
        for orig, got in zip(st.msgs, msgs):
            why = K.messages_equal(orig, got) if st.encoding == "lib" else same_message(orig, got)
            if why:
                loc.violation(f"single-delivery-differs:{K.strip_idx(why)}", f"message altered by receive: {why}", {**case, "cuts": [j]})
                return loc
        col_sess[j] = c
        col_state[j] = A.freeze(c)
        col_msgs[j] = [_mk(m) for m in msgs]
        loc.add("states")
    loc.distinct.add((st.role, st.note, n))
    probe_cache: t.Dict[t.Any, t.Optional[str]] = {}
    for k in cols:
        have = col_msgs[k]
        for j in (c for c in cols if c >= k):
            for fl in flavours:
                if k == 0 and fl == "bytes" and j > 0:
                    continue  # that edge defined the column
                c = copy.deepcopy(col_sess[k])
                buf = _container(fl, s[k:j])
                loc.add("transitions")
                cuts = [k, j]
                try:
                    msgs = c.receive(buf)
                except BaseException as e:  # noqa: BLE001
                    loc.violation(f"chunk-raises:{type(e).__name__}:{fl}", f"receive raised {type(e).__name__} for chunk [{k}:{j}] ({fl}): {e}", {**case, "cuts": cuts, "flavour": fl})
                    continue
                snap = [_mk(m) for m in msgs]
                why = _scribble(fl, buf)
                if why:
                    loc.violation(f"buffer-export:{fl}", why, {**case, "cuts": cuts, "flavour": fl})
                    continue
                after = [_mk(m) for m in msgs]
                if after != snap:
                    loc.violation(f"returned-message-aliases-input:{fl}", f"a returned message changed when the caller reused its {fl} buffer", {**case, "cuts": cuts, "flavour": fl})
                    continue
                if have + snap != col_msgs[j]:
                    kind = "lost" if len(have + snap) < len(col_msgs[j]) else "duplicated" if len(have + snap) > len(col_msgs[j]) else "altered"
                    loc.violation(
                        f"messages-{kind}:{fl}:{'residue' if k not in [0] + ends else 'boundary'}",
                        f"cut at {k} then chunk to {j} ({fl}) returned {len(have)}+{len(snap)} messages, single delivery of {j} bytes returns {len(col_msgs[j])}",
                        {**case, "cuts": cuts, "flavour": fl},
                    )
                    continue
                if A.freeze(c) != col_state[j]:
                    # structurally different from the single delivery.  "The same state" is about what the session is to its
                    # user, so this counts only if something visible differs -- now, or on any of the continuations below.
                    fk = (j, A.freeze(c))
                    if fk not in probe_cache:
                        probe_cache[fk] = behaviour_differs(c, col_sess[j], s, j, ends)
                    why = probe_cache[fk]
                    if why:
                        loc.violation(f"state-depends-on-chunking:{fl}", f"session state after cut {k} + chunk to {j} ({fl}) differs from a single delivery of {j} bytes: {why}", {**case, "cuts": cuts, "flavour": fl})
                        continue
                    loc.add("structurally_different_states_behaving_alike")
                for m in msgs:
                    try:
                        A.absmsg(m)
                    except A.BadField as e:
                        loc.violation(f"returned-message-not-self-contained:{e.tag}", str(e), {**case, "cuts": cuts, "flavour": fl})
                # later deliveries never change a message already returned
                if k == 0 and msgs and j < n:
                    try:
                        c.receive(s[j:])
                    except BaseException as e:  # noqa: BLE001
                        loc.violation(f"rest-of-stream-raises:{type(e).__name__}:{fl}", f"after a first chunk [0:{j}] the rest of a well-formed stream raised {type(e).__name__}: {e}", {**case, "cuts": cuts, "flavour": fl})
                        continue
                    if [_mk(m) for m in msgs] != snap:
                        loc.violation("returned-message-changed-by-later-delivery", "a later delivery changed a message already returned", {**case, "cuts": cuts, "flavour": fl})
    return loc


def _bystander_run(st: Stream, s: bytes, cuts: t.List[int], want: t.List[str], phase: int = 0) -> t.Optional[t.Tuple[str, str]]:
    """The bystander alternates: first half of a message of its own (a delivery that ends inside a message, with no residue
    before it), then the rest of it (a delivery that ends exactly on a boundary); `phase` skips its first turns."""
    if st.role == "server":
        others = [L.ExtendedRequest(9 + i, [], "1.3.6.1.4.1.1466.20037", b"bystander-value-%d" % i).pack(K.OPTS) for i in range(3)]
    else:
        others = [L.ExtendedResponse(1 + i, [], L.LDAPResult(L.LDAPResultCode.SUCCESS, "", "", None), "1.2.3", b"bystander-value-%d" % i).pack(K.OPTS) for i in range(3)]
    by = L.LDAPServer() if st.role == "server" else L.LDAPClient()
    if st.role == "client":
        for _ in others:
            by.extended_request("1.2")
        by.data_to_send()
    pieces = [p for o in others for p in (o[: len(o) // 2], o[len(o) // 2 :])]
    me = session_for(st)
    got: t.List[str] = []
    rest: t.List[t.Any] = []
    turn = 0
    try:
        for idx, (lo, hi) in enumerate(zip(cuts, cuts[1:])):
            got += [A.src(m) for m in me.receive(s[lo:hi])]
            if idx >= phase and turn < len(pieces):
                rest += by.receive(pieces[turn])
                turn += 1
        while turn < len(pieces):
            rest += by.receive(pieces[turn])
            turn += 1
    except BaseException as e:  # noqa: BLE001
        return (f"bystander:raises:{type(e).__name__}", f"with a second live session receiving between the chunks {cuts} (from chunk {phase + 1} on): {type(e).__name__}: {e}")
    if got != want:
        kind = "lost" if len(got) < len(want) else "duplicated" if len(got) > len(want) else "altered"
        return (f"bystander:messages-{kind}", f"with a second live session receiving between the chunks {cuts} (from chunk {phase + 1} on), {len(got)} messages came out, a single delivery gives {len(want)}")
    if [m.value for m in rest] != [b"bystander-value-%d" % i for i in range(3)]:
        return ("bystander:other-session-damaged", f"the second session's own messages came out as {[A.src(m) for m in rest]} (chunks of the first: {cuts})")
    return None


def bystander_stream(st: Stream) -> evid.Local:
    """The same session objects from start to end (no copies), and a second live session of the same class that receives
    half a PDU of its own between any two deliveries to the first: whatever holds the residue (a pooled or shared buffer, a
    class-level scratch area) must belong to one session.  Every partition of the stream into <= 3 chunks with cuts in the
    column set; the bystander's own message must come out intact as well."""
    loc = evid.Local()
    s = st.data()
    n = len(s)
    units, _ = ber.frame(s)
    ends = [e for _s, e in units]
    case = st.describe()
    expect = session_for(st).receive(s)
    want = [A.src(m) for m in expect]
    cols = column_set(n, ends, n > 60)
    for a in cols:
        for b in (c for c in cols if c >= a):
            cuts = sorted({0, a, b, n})
            for phase in (0, 1, 2):
                loc.add("transitions", len(cuts) - 1)
                r = _bystander_run(st, s, cuts, want, phase)
                if r:
                    loc.violation(r[0], r[1], {**case, "cuts": cuts, "bystander": True, "phase": phase})
    loc.distinct.add(("bystander", st.role, st.note, n))
    return loc


def terminated_stream(st: Stream, term: bytes, label: str) -> evid.Local:
    """A well-formed stream followed by a terminating PDU (UnbindRequest to a server, notice of disconnection to a client).
    A single delivery raises ProtocolError and leaves the session CLOSED; so must every partition into <= 3 chunks: the
    chunk that completes the terminator raises, the session is CLOSED afterwards, and what was returned before is a prefix
    of the stream's messages that contains at least every message completed in an earlier chunk."""
    loc = evid.Local()
    body = st.data()
    s = body + term
    n = len(s)
    units, _ = ber.frame(s)
    ends = [e for _s, e in units]
    want = [A.src(m) for m in session_for(st).receive(body)]
    case = {**st.describe(), "terminator": label}
    one = session_for(st)
    try:
        one.receive(s)
        loc.violation(f"terminated:single-delivery-returns:{label}", f"a single delivery of the stream ending in {label} returned normally", {**case, "cuts": []})
        return loc
    except L.ProtocolError:
        ref_view = A.public_view(one)
    except BaseException as e:  # noqa: BLE001
        loc.violation(f"terminated:raises:{type(e).__name__}:{label}", f"single delivery: {type(e).__name__}: {e}", {**case, "cuts": []})
        return loc
    cols = column_set(n, ends, n > 60)
    for a in cols:
        for b in (c for c in cols if c >= a):
            cuts = sorted({0, a, b, n})
            me = session_for(st)
            got: t.List[str] = []
            raised_at = None
            loc.add("transitions", len(cuts) - 1)
            for lo, hi in zip(cuts, cuts[1:]):
                try:
                    got += [A.src(m) for m in me.receive(s[lo:hi])]
                except L.ProtocolError:
                    raised_at = hi
                    break
                except BaseException as e:  # noqa: BLE001
                    raised_at = -1
                    loc.violation(f"terminated:raises:{type(e).__name__}:{label}", f"chunks {cuts}: {type(e).__name__}: {e}", {**case, "cuts": cuts})
                    break
            if raised_at == -1:
                continue
            must = sum(1 for e in ends[:-1] if e <= max([c for c in cuts if c < (raised_at or n)] + [0]))
            if raised_at != n:
                loc.violation(f"terminated:{'no-error' if raised_at is None else 'early-error'}:{label}", f"chunks {cuts}: {'no delivery raised' if raised_at is None else f'the delivery ending at {raised_at} raised'}; the terminator is complete at {n}", {**case, "cuts": cuts})
            elif A.public_view(me) != ref_view:
                loc.violation(f"terminated:state-depends-on-chunking:{label}", f"chunks {cuts}: session shows {A.public_view(me)}, after a single delivery {ref_view}", {**case, "cuts": cuts})
            elif got != want[: len(got)] or len(got) < must:
                loc.violation(f"terminated:messages-before-terminator:{label}", f"chunks {cuts}: {len(got)} messages returned before the error, {must} were complete in earlier chunks", {**case, "cuts": cuts})
    loc.distinct.add(("terminated", st.role, label, n))
    return loc


_X: t.Dict[str, t.Any] = {}


def _work(job: t.Tuple[int, str]) -> evid.Local:
    st = _X["streams"][job[0]]
    if job[1] == "bystander":
        return bystander_stream(st)
    if job[1] == "terminated":
        if st.role == "server":
            return terminated_stream(st, L.UnbindRequest(0, []).pack(K.OPTS), "unbind")
        return terminated_stream(st, L.ExtendedResponse(0, [], L.LDAPResult(L.LDAPResultCode.UNAVAILABLE, "", "bye", None), "1.3.6.1.4.1.1466.20036", None).pack(K.OPTS), "notice")
    return explore_stream(st, [job[1]])


def run(ctx: evid.Ctx) -> None:
    thorough = ctx.tier == "thorough"
    streams = catalogue(thorough)
    _X["streams"] = streams
    jobs = []
    for i, st in enumerate(streams):
        n = len(st.data())
        for fl in FLAVOURS:
            if 200 < n <= SPARSE_ABOVE and fl != "bytes" and not thorough:
                continue
            jobs.append((i, fl))
    # two live sessions: streams of >= 2 messages in the library's own encoding, shortest first
    multi = sorted((i for i, st in enumerate(streams) if len(st.msgs) >= 2 and st.encoding == "lib" and st.tail == 0 and len(st.data()) <= 400), key=lambda i: len(streams[i].data()))
    picked = [i for r in ("client", "server") for i in [j for j in multi if streams[j].role == r][: (12 if thorough else 4)]]
    jobs += [(i, "bystander") for i in picked]
    jobs += [(i, "terminated") for i in picked]
    ctx.note("bystander_streams", [len(streams[i].data()) for i in picked])
    jobs.sort(key=lambda j: -len(streams[j[0]].data()))
    for loc in par.pmap(_work, jobs, ctx.seed):
        evid.absorb(ctx, loc)
    # columns are shared by the flavours of a stream: count them once
    ctx.counters["states"] = sum(len(column_set(len(st.data()), [e for _s, e in ber.frame(st.data())[0]], len(st.data()) > SPARSE_ABOVE)) for st in streams)
    ctx.counters["evaluations"] = ctx.counters.get("transitions", 0)
    ctx.note("streams", len(streams))
    ctx.note("stream_lengths", sorted(len(st.data()) for st in streams))
    for st in streams[:: max(1, len(streams) // 4)][:4]:
        ctx.sample(st.describe())
    ctx.rule = (
        "per stream: n+1 column states, every chunk s[k:j] delivered to a copy of column k's real session in 3 container "
        "flavours; each edge must reproduce column j's canonical state and cumulative messages; distinct_nontrivial counts "
        "distinct (role, stream shape, length) streams"
    )
    ctx.bounds = {"streams": len(streams), "max_len": max(len(st.data()) for st in streams), "flavours": FLAVOURS}
    ctx.assumptions = [
        "streams are well-formed message sequences on which a single delivery returns (terminators make receive raise: C05/C08)",
        "the equivalence of all partitions follows by induction from the per-edge agreement checked here",
        "streams longer than 400 bytes use a sparse column set (around every header and PDU boundary): all partitions whose cuts lie in that set",
    ]


def replay(case: t.Dict[str, t.Any], key: t.Optional[str] = None) -> t.Tuple[bool, str]:
    st = Stream(case["role"], case["prelude"], [A.unsrc(m) for m in case["msgs"]], case["tail"], "replay", case.get("encoding", "lib"))
    s = st.data()
    if case.get("terminator"):
        term = L.UnbindRequest(0, []).pack(K.OPTS) if st.role == "server" else L.ExtendedResponse(0, [], L.LDAPResult(L.LDAPResultCode.UNAVAILABLE, "", "bye", None), "1.3.6.1.4.1.1466.20036", None).pack(K.OPTS)
        full = s + term
        me, states = session_for(st), []
        cuts = sorted(set([0] + list(case["cuts"]) + [len(full)]))
        for lo, hi in zip(cuts, cuts[1:]):
            try:
                me.receive(full[lo:hi])
                states.append(f"[{lo}:{hi}] returned, state {me.state.name}")
            except BaseException as e:  # noqa: BLE001
                states.append(f"[{lo}:{hi}] raised {type(e).__name__}, state {me.state.name}")
                break
        loc = terminated_stream(st, term, case["terminator"])
        hits = [v for k, v in loc.viol.items() if key is None or k == key]
        return (not hits), "\n".join("  " + x for x in states) + "".join(f"\n  {v['key']}: {v['what']}" for v in hits[:3])
    if case.get("bystander"):
        r = _bystander_run(st, s, case["cuts"], [A.src(m) for m in session_for(st).receive(s)], case.get("phase", 0))
        return (r is None), (f"  {r[0]}: {r[1]}" if r else f"  chunks {case['cuts']} with a second live session in between: all messages intact")
    cuts = [0] + [c for c in case["cuts"] if c] + [len(s)]
    fl = case.get("flavour", "bytes")
    one = session_for(st)
    ref = [A.src(m) for m in one.receive(s)]
    many = session_for(st)
    got: t.List[str] = []
    lines = []
    try:
        for a, b in zip(cuts, cuts[1:]):
            if b < a:
                continue
            buf = _container(fl, s[a:b])
            r = many.receive(buf)
            got += [A.src(m) for m in r]
            _scribble(fl, buf)
            lines.append(f"  receive(s[{a}:{b}]) -> {len(r)} messages")
    except BaseException as e:  # noqa: BLE001
        return False, "\n".join(lines) + f"\n  raised {type(e).__name__}: {e}"
    ends = [e for _s, e in ber.frame(s)[0]]
    same_state = True
    many2 = session_for(st)
    for a, b in zip(cuts, cuts[1:]):
        if b < a:
            continue
        many2.receive(_container(fl, s[a:b]))
        single = session_for(st)
        if b:
            single.receive(s[:b])
        if A.freeze(single) != A.freeze(many2):
            why = behaviour_differs(many2, single, s, b, ends)
            if why:
                same_state = False
                lines.append(f"  after the chunk ending at {b}: {why}")
    ok = got == ref and same_state
    lines.append(f"  chunked: {len(got)} messages, single delivery: {len(ref)}; states equal: {same_state}")
    return ok, "\n".join(lines)
