"""C06 -- no complete protocol data unit is ever silently discarded.

Streams of outer TLVs, each either a valid message or a COMPLETE envelope with a damaged
interior (every interior node mutation of vf/ref/bermut.py; the outer length always stays
satisfied), followed by a valid message so that a swallowed successor is seen too.  Every
stream is delivered whole, at every 2-split and byte-at-a-time.  Oracle: an independent framer
(outer identifier + definite length only) counts the complete units in the bytes delivered so
far; after every receive that returns normally the number of messages returned so far must
equal that count -- otherwise a ProtocolError must have been raised.
"""
from __future__ import annotations

import typing as t

import sansldap as L

from vf.checks import c05
from vf.checks import common as K
from vf.engine import evid, par
from vf.ref import ber, bermut

FOLLOW = {
    "server": L.ExtendedRequest(9, [], "1.2", None),
    "client": L.SearchResultEntry(1, [], "cn=next", []),
}


EMPTY_ENVELOPES = ["3000", "308100", "30820000", "3084000000" + "00", "6000", "0400", "30028100", "3003020100", "30050201008100"]


def interior_mutants(b: bytes) -> t.Iterator[t.Tuple[str, int, bytes]]:
    """Every node mutation whose result is still exactly one complete top-level unit under the
    independent framer -- interior damage, but also damage to the envelope itself as long as its
    (possibly changed, possibly zero) outer length stays satisfied."""
    for label, idx, data in bermut.mutants(b):
        units, used = ber.frame(data)
        if len(units) == 1 and used == len(data):
            yield label, idx, data


def deliver(role: str, data: bytes, chunks: t.List[bytes], state: str = "open-outstanding") -> t.Tuple[t.Optional[t.Tuple[str, str]], str]:
    try:
        with K.guard(10 + len(data) // 5000):
            return _deliver(role, data, chunks, state)
    except K.CallDoesNotReturn as e:
        return ("pdu-never-answered", f"receive does not return: {e}"), "mismatch"


def _deliver(role: str, data: bytes, chunks: t.List[bytes], state: str = "open-outstanding") -> t.Tuple[t.Optional[t.Tuple[str, str]], str]:
    s = c05.make_session(role, state)
    got = 0
    delivered = 0
    for ch in chunks:
        delivered += len(ch)
        try:
            r = s.receive(ch)
        except L.ProtocolError:
            return None, "error"
        except BaseException as e:  # noqa: BLE001
            return None, f"foreign:{type(e).__name__}"  # C05 reports these
        got += len(r)
        units, _ = ber.frame(data[:delivered])
        if got != len(units):
            kind = "discarded" if got < len(units) else "invented"
            return (
                f"pdu-{kind}",
                f"{delivered} bytes delivered hold {len(units)} complete PDU(s) but receive has returned {got} message(s) and raised nothing",
            ), "mismatch"
    return None, f"ok:{got}"


def modes(data: bytes, all_splits: bool) -> t.Iterator[t.Tuple[str, t.List[bytes]]]:
    yield "whole", [data]
    yield "bytewise", [data[i : i + 1] for i in range(len(data))]
    if all_splits:
        for i in range(1, len(data)):
            yield f"split@{i}", [data[:i], data[i:]]


_X: t.Dict[str, t.Any] = {}


def _wellformed(bi: int) -> evid.Local:
    """Well-formed streams (A, B, A): every partition into at most 3 (short streams: 4) chunks is accounted for."""
    import itertools

    loc = evid.Local()
    b = _X["bases"][bi]
    role = _X["roles"][bi]
    f = FOLLOW[role].pack(K.OPTS)
    data = b + f + b if len(b) <= 40 else b + f
    n = len(data)
    parts = [[data], [data[j : j + 1] for j in range(n)]]
    for ncut in (1, 2, 3):
        if ncut == 3 and n > 44:
            continue
        for cuts in itertools.combinations(range(1, n), ncut):
            cs = (0,) + cuts + (n,)
            parts.append([data[a:b2] for a, b2 in zip(cs, cs[1:])])
    for pi, chunks in enumerate(parts):
      # every partition from a session with operations outstanding; whole / byte-wise / every single cut also from a session
      # that has seen no traffic (where a bind pipelined with further requests is legitimate) and from one that is binding
      for state in ("open-outstanding", "fresh", "binding") if pi < 2 + (n - 1) else ("open-outstanding",):
        loc.add("transitions", len(chunks))
        v, outcome = deliver(role, data, chunks, state)
        if v:
            loc.violation(f"{v[0]}:{role}:well-formed-stream", v[1] + f" [chunk sizes {[len(c) for c in chunks][:8]}; {state}]", {"role": role, "data": data.hex(), "chunks": "bytewise" if len(chunks) == n else [c.hex() for c in chunks], "state": state})
    loc.add("states")
    loc.distinct.add(("well-formed", bi))
    return loc


def _work(job: t.Tuple[int, str]) -> evid.Local:
    if job[1] == "well-formed":
        return _wellformed(job[0])
    loc = evid.Local()
    bi, shape = job
    b = _X["bases"][bi]
    role = _X["roles"][bi]
    follow = FOLLOW[role].pack(K.OPTS)
    for label, idx, mut in interior_mutants(b):
        if shape == "mut+valid":
            data = mut + follow
        elif shape == "valid+mut":
            data = follow + mut
        elif shape == "valid+mut+valid":
            data = follow + mut + follow
        else:
            data = mut
        loc.add("states")
        for mname, chunks in modes(data, _X["all_splits"] or len(data) <= 64):
          # from a session with operations outstanding, and (whole / byte-wise deliveries) from one that has seen no traffic
          # yet: what a session does with a damaged PDU must not depend on whether it was the first
          for state in ("open-outstanding", "fresh") if mname in ("whole", "bytewise") and shape in ("mut", "mut+valid") else ("open-outstanding",):
            loc.add("transitions", len(chunks))
            v, outcome = deliver(role, data, chunks, state)
            loc.distinct.add((role, label, outcome))
            if v:
                cause = "interior-incomplete" if label in ("len+1", "len-84-ffffffff", "len-126-octets", "stub-1", "stub-2", "tag=31-dangling", "delete", "empty", "truncate-1", "pc-flip") else "other"
                loc.violation(f"{v[0]}:{role}:{cause}", v[1] + f"  [{label} on node {idx} of base {bi}; stream {data.hex()[:90]}; {mname}]", {"role": role, "data": data.hex(), "chunks": [c.hex() for c in chunks] if len(chunks) <= 3 else "bytewise", "mutation": label, "node": idx, "state": state})
    return loc


def run(ctx: evid.Ctx) -> None:
    thorough = ctx.tier == "thorough"
    msgs = c05.base_messages()
    # terminators make receive raise by design; they cannot be "returned", so they are not bases here
    keep = [m for m in msgs if not isinstance(m, L.UnbindRequest) and not (isinstance(m, L.ExtendedResponse) and m.name == c05.SS.NOTICE)]
    _X["bases"] = [m.pack(K.OPTS) for m in keep]
    _X["roles"] = ["server" if isinstance(m, (L.BindRequest, L.SearchRequest, L.ExtendedRequest)) else "client" for m in keep]
    _X["all_splits"] = thorough
    jobs = [(i, sh) for i in range(len(keep)) for sh in (("mut+valid", "valid+mut", "valid+mut+valid", "mut") if thorough else ("mut+valid", "valid+mut"))]
    jobs += [(i, "well-formed") for i in range(len(keep))]
    # many complete PDUs in ONE receive call (a page of search entries read from the socket at once)
    for role in ("server", "client"):
        one = FOLLOW[role].pack(K.OPTS)
        for count in (2, 3, 100, 1023, 1024, 1025, 2048, 5000, 12000):
            data = one * count
            # read sizes that are prime: reads then (almost) never end on a PDU boundary, so a partial PDU stays pending
            # while tens of KiB are consumed
            fixed = [[data[p : p + size] for p in range(0, len(data), size)] for size in ((997, 4099, 4999, 9973, 333, 1460) if count >= 1000 else (7,))]
            for chunks in [[data], [data[:7], data[7:]], [data[: len(data) // 2 + 3], data[len(data) // 2 + 3 :]]] + fixed:
                ctx.add("transitions", len(chunks))
                v, outcome = deliver(role, data, chunks)
                if v:
                    ctx.violation(f"{v[0]}:{role}:many-pdus-per-call", v[1] + f" [{count} PDUs in {len(chunks)} chunk(s)]", {"role": role, "data": one.hex(), "repeat": count, "chunks": [len(c) for c in chunks] if len(chunks) < 50 else [len(chunks[0])] * len(chunks)})
            ctx.add("states")
    # a search that asked for one entry and a peer that sends three: every complete PDU is still accounted for
    for role in ("client", "server"):
        one = FOLLOW[role].pack(K.OPTS)
        data = one * 3
        for mname, chunks in modes(data, True):
            ctx.add("transitions", len(chunks))
            v, outcome = deliver(role, data, chunks, "open-limited")
            if v:
                ctx.violation(f"{v[0]}:{role}:size-limited-search", v[1] + f" [3 entries for a search with sizeLimit 1; {mname}]", {"role": role, "data": data.hex(), "state": "open-limited", "chunks": "bytewise" if mname == "bytewise" else [c.hex() for c in chunks]})
        ctx.add("states")
    # every protocolOp identifier a peer may send ([APPLICATION 0..31], both forms), known to the library or not
    for role in ("server", "client"):
        for num in range(0, 32):
            for cons in (False, True):
                for body in (b"", b"\x02\x01\x05", b"\x04\x00"):
                    op = ber.enc_ident(ber.APPLICATION, cons, num) + ber.enc_len(len(body)) + body
                    pdu = b"\x30" + ber.enc_len(3 + len(op)) + b"\x02\x01\x01" + op
                    data = pdu + FOLLOW[role].pack(K.OPTS)
                    for mname, chunks in modes(data, False):
                        ctx.add("transitions", len(chunks))
                        v, outcome = deliver(role, data, chunks)
                        if v:
                            ctx.violation(f"{v[0]}:{role}:unmodelled-operation", v[1] + f" [protocolOp APPLICATION {num} {'constructed' if cons else 'primitive'}; {mname}]", {"role": role, "data": data.hex(), "chunks": "bytewise" if mname == "bytewise" else [c.hex() for c in chunks]})
                    ctx.add("states")
    # complete units with no content at all, in every length form, alone and followed by a valid PDU
    for hx in EMPTY_ENVELOPES:
        for role in ("server", "client"):
            for tail in (b"", FOLLOW[role].pack(K.OPTS)):
                data = bytes.fromhex(hx) + tail
                for mname, chunks in modes(data, True):
                    ctx.add("transitions", len(chunks))
                    v, outcome = deliver(role, data, chunks)
                    if v:
                        ctx.violation(f"{v[0]}:{role}:empty-unit", v[1] + f" [{hx}; {mname}]", {"role": role, "data": data.hex(), "chunks": "bytewise" if mname == "bytewise" else [c.hex() for c in chunks]})
                ctx.add("states")
    for loc in par.pmap(_work, jobs, ctx.seed):
        evid.absorb(ctx, loc)
    ctx.counters["evaluations"] = ctx.counters.get("transitions", 0)
    ctx.sample({"base": _X["bases"][1].hex(), "mutation": "len+1 on the messageID node", "stream": next(d for l, i, d in interior_mutants(_X["bases"][1]) if l == "len+1").hex()})
    ctx.rule = (
        "one case = one stream (complete envelope with one interior node mutation [+ valid successor]) x one chunking; a "
        "transition is one receive call; distinct_nontrivial counts distinct (role, mutation, outcome) classes"
    )
    ctx.bounds = {"bases": len(keep), "menu": bermut.MENU, "shapes": sorted({j[1] for j in jobs}), "chunkings": "whole, byte-at-a-time, every 2-split (streams <= 64 bytes at quick)"}
    ctx.assumptions = ["the session starts OPENED with search 1 / extended 2 outstanding so that well-formed responses are acceptable"]


def replay(case: t.Dict[str, t.Any], key: t.Optional[str] = None) -> t.Tuple[bool, str]:
    if "repeat" in case:
        data = bytes.fromhex(case["data"]) * case["repeat"]
        chunks, p = [], 0
        for ln in case["chunks"]:
            chunks.append(data[p : p + ln])
            p += ln
        v, outcome = deliver(case["role"], data, chunks)
        return (v is None), f"{case['repeat']} PDUs in {len(chunks)} chunk(s) -> {outcome}" + (f"\n  {v[0]}: {v[1]}" if v else "")
    data = bytes.fromhex(case["data"])
    chunks = [data[i : i + 1] for i in range(len(data))] if case["chunks"] == "bytewise" else [bytes.fromhex(c) for c in case["chunks"]]
    v, outcome = deliver(case["role"], data, chunks, case.get("state", "open-outstanding"))
    units, _ = ber.frame(data)
    txt = f"{case['role']}: stream of {len(data)} bytes holding {len(units)} complete PDU(s), {len(chunks)} chunk(s) -> {outcome}"
    return (v is None), txt + (f"\n  {v[0]}: {v[1]}" if v else "")
