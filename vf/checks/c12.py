"""C12 -- outgoing bytes are delivered exactly once, in order, however they are drained.

Explicit-state BFS over one real session with the outgoing buffer KEPT in the state.  Events:
every send call of the session alphabet (accepted and refused ones) and data_to_send(a) for
a in {None, 0, 1, 2, pending-1, pending, pending+1, 10**6}.  Ghost: the concatenation of the
encodings of accepted sends (each obtained from a drained clone and checked with the
reference decoder), and how many bytes have been drained so far.
"""
from __future__ import annotations

import copy
import typing as t

import sansldap as L

from vf import abs as A
from vf.checks import sess
from vf.engine import evid
from vf.ref import ber

AMOUNTS = ["None", "0", "1", "2", "p-1", "p", "p+1", "1000000"]


def _amount(a: str, pending: int) -> t.Optional[int]:
    if a == "None":
        return None
    if a.lstrip("-").isdigit():
        return int(a)
    if a.startswith("p"):
        return max(0, pending + int(a[1:] or 0))
    return int(a)


def initial_states(role: str) -> t.List[t.Tuple[str, t.Any, t.List[t.Any]]]:
    if role == "client":
        return [("fresh", L.LDAPClient(), [])]
    out = [("fresh", L.LDAPServer(), [])]
    s = L.LDAPServer()
    pre = [("recv", "SearchReq", 1), ("recv", "ExtReq", 2)]
    for ev in pre:
        sess.apply_event("server", s, ev)
    out.append(("search1+ext2", s, pre))
    s = L.LDAPServer()
    pre = [("recv", "BindReq", 1)]
    for ev in pre:
        sess.apply_event("server", s, ev)
    out.append(("bind1", s, pre))
    return out


def recv_events(role: str) -> t.List[sess.Event]:
    """Deliveries interleaved with the sends and drains: one the session accepts, and the ones that close it."""
    if role == "client":
        return [("recv", "Notice", 0), ("recv", "ExtResp", 99), ("garbage", "0400", -1), ("recv", "Unbind", 0)]
    return [("recv", "ExtReq", 3), ("recv", "Unbind", 0), ("garbage", "0400", -1), ("recv", "ExtResp", 1), ("recv", "BindReq-v2", 7)]


def send_events(role: str) -> t.List[sess.Event]:
    if role == "client":
        return [("call", n, -1) for n in sess.CLIENT_CALLS] + [("callbad", n, -1) for n in sess.CLIENT_BAD]
    ev: t.List[sess.Event] = [("call", "unbind", -1)]
    for i in (1, 2, 3):
        ev += [("call", n, i) for n in sess.SERVER_CALLS]
    ev += [("callbad", n, 1) for n in sess.SERVER_BAD]  # a send that fails while encoding contributes nothing
    ev.append(("call", "ref0", 1))
    return ev


STATE_CAP = {"quick": 30_000, "thorough": 200_000}  # about 4x the state count of the pinned tree per role: a space that has stopped closing is cut here


def explore(role: str, max_sends: int, cap: int = 200_000) -> t.Dict[str, t.Any]:
    stats = {"states": 0, "transitions": 0, "validated": 0, "viol": {}, "outcomes": set(), "samples": [], "capped": False}

    def flag(key: str, what: str, hist: t.List[t.Any]) -> None:
        e = stats["viol"].get(key)
        if e is None:
            stats["viol"][key] = {"what": what, "history": hist, "count": 1}
        else:
            e["count"] += 1

    for label, init, prehist in initial_states(role):
        g0 = (b"", 0, 0)  # (ghost stream, drained so far, sends made)
        # the twin receives the same sends but is drained completely after each: "however they are drained" means the
        # session under test stays indistinguishable from it in everything but the bytes still pending
        seen = {(A.freeze(init), A.freeze(init), g0)}
        frontier = [(init, copy.deepcopy(init), g0, [list(e) for e in prehist])]
        stats["states"] += 1
        while frontier and not stats["capped"]:
            nxt = []
            for s, twin, (stream, drained, nsend), hist in frontier:
                if stats["states"] > cap:
                    stats["capped"] = True  # reported as INCOMPLETE (exhaustive = false); never a violation
                    break
                pending = len(stream) - drained
                evs: t.List[t.Any] = [("drain", a, -1) for a in AMOUNTS]
                if nsend < max_sends:
                    evs += send_events(role) + recv_events(role)
                for ev in evs:
                    s2 = copy.deepcopy(s)
                    twin2 = twin
                    h2 = hist + [list(ev)]
                    stats["transitions"] += 1
                    bad = False
                    if ev[0] == "drain":
                        amt = _amount(ev[1], pending)
                        before = A.public_view(s2)
                        try:
                            got = s2.data_to_send(amt)
                        except BaseException as e:  # noqa: BLE001
                            flag(f"drain-raises:{type(e).__name__}:{ev[1]}", f"data_to_send({amt}) raised {type(e).__name__}: {e}", h2)
                            continue
                        exp = stream[drained:] if amt is None else stream[drained : drained + amt]
                        stats["outcomes"].add(("drain", ev[1], len(got) == 0, len(got) == pending))
                        if type(got) is not bytes:
                            flag("drain-type", f"data_to_send returned {type(got).__name__}", h2)
                            bad = True
                        if got != exp:
                            kind = "short" if len(got) < len(exp) else "long" if len(got) > len(exp) else "different"
                            flag(f"drain-wrong-bytes:{ev[1]}:{kind}", f"data_to_send({amt}) with {pending} pending returned {got.hex()[:40]} ({len(got)} bytes), expected {exp.hex()[:40]} ({len(exp)} bytes)", h2)
                            bad = True
                        if A.public_view(s2) != before:
                            flag(f"drain-changed-protocol-state:{ev[1]}", f"data_to_send({amt}) changed the session's protocol state", h2)
                            bad = True
                        g2 = (stream, drained + len(exp), nsend)
                    elif ev[0] in ("recv", "garbage"):
                        # a delivery -- harmless, or one that closes the session: it queues nothing and takes nothing away
                        # (what was accepted for sending before is still to be drained, exactly once)
                        twin2 = copy.deepcopy(twin)
                        outs = []
                        for x in (s2, twin2):
                            try:
                                sess.apply_event(role, x, ev)
                                outs.append("ok")
                            except L.ProtocolError:
                                outs.append("closed")
                            except BaseException as e:  # noqa: BLE001
                                outs.append(type(e).__name__)
                        exc = None
                        stats["outcomes"].add(("recv", ev[1], outs[0]))
                        if outs[0] != outs[1]:
                            flag(f"pending-bytes-change-delivery:{ev[1]}", f"delivery {ev[1]} ends '{outs[0]}' with {pending} bytes pending but '{outs[1]}' with none", h2)
                            bad = True
                        extra = twin2.data_to_send()
                        if extra:
                            flag(f"delivery-queued-bytes:{ev[1]}:{outs[1]}", f"receiving {ev[1]} put {len(extra)} bytes into the outgoing stream: {extra.hex()[:60]}", h2)
                            bad = True
                        g2 = (stream, drained, nsend + 1)
                    else:
                        # expected encoding of this call: what the always-drained twin emits
                        probe = twin2 = copy.deepcopy(twin)
                        pexc = None
                        try:
                            sess.apply_event(role, probe, ev)
                        except BaseException as e:  # noqa: BLE001
                            pexc = e
                        enc = probe.data_to_send()
                        exc = None
                        try:
                            sess.apply_event(role, s2, ev)
                        except BaseException as e:  # noqa: BLE001
                            exc = e
                        stats["outcomes"].add(("send", ev[1], type(exc).__name__ if exc else "ok"))
                        if (exc is None) != (pexc is None):
                            flag(f"pending-bytes-change-acceptance:{ev[1]}", f"{ev[1]} is {'accepted' if exc is None else 'refused'} with {pending} bytes pending but the opposite with none", h2)
                            bad = True
                        if exc is None and ev[0] == "call":
                            want = None
                            den = sess.denotes(role, ev, sess._first_id(enc) or 0)
                            if den is not None:
                                want = sess.reference_encoding(den)
                            if want is not None and want != enc:
                                flag(f"send-encodes-other-message:{ev[1]}", f"accepted {ev[1]}({ev[2]}) put {enc.hex()[:70]} on the wire; the call denotes {A.src(den)[:120]} = {want.hex()[:70]}", h2)
                                bad = True
                        if exc is None:
                            units, used = ber.frame(enc)
                            if len(units) == 1 and used == len(enc) and enc:
                                stats["validated"] += 1
                            else:
                                flag(f"send-not-one-pdu:{ev[1]}", f"accepted {ev[1]} emitted {enc.hex()[:60]}, which is not exactly one top-level PDU", h2)
                                bad = True
                            g2 = (stream + enc, drained, nsend + 1)
                        else:
                            g2 = (stream, drained, nsend + 1)
                    # the invariant: what is pending is exactly the undrained tail of the ghost stream
                    rest = copy.deepcopy(s2).data_to_send()
                    exp_rest = g2[0][g2[1] :]
                    if rest != exp_rest:
                        why = "refused" if ev[0] in ("call", "callbad") and exc is not None else "accepted" if ev[0] in ("call", "callbad") else "delivery" if ev[0] in ("recv", "garbage") else "drain"
                        flag(f"pending-differs-after:{ev[0]}:{ev[1]}:{why}", f"after {ev} the session holds {rest.hex()[:50]} ({len(rest)} bytes); accepted sends minus drained bytes = {exp_rest.hex()[:50]} ({len(exp_rest)} bytes)", h2)
                        bad = True
                    if A.public_view(s2) != A.public_view(twin2):
                        flag(f"drain-pattern-changes-visible-state:{ev[0]}:{ev[1]}", f"after {ev} the session shows {A.public_view(s2)}; the same sends with every byte drained at once: {A.public_view(twin2)}", h2)
                        bad = True
                    if bad:
                        continue
                    key = (A.freeze(s2), A.freeze(twin2), g2)
                    if key not in seen:
                        seen.add(key)
                        stats["states"] += 1
                        nxt.append((s2, twin2, g2, h2))
                        if len(stats["samples"]) < 4 and len(h2) >= 4:
                            stats["samples"].append({"role": role, "init": label, "history": h2})
            frontier = nxt
    return stats


def replay_case(case: t.Dict[str, t.Any]) -> t.Tuple[bool, str]:
    role = case["role"]
    if case["history"] and not isinstance(case["history"][0], list) or (case["history"] and case["history"][0] and isinstance(case["history"][0], list) and isinstance(case["history"][0][0], str) and case["history"][0][0] not in ("call", "callbad", "recv", "drain", "recv2", "recvpair", "recvpeer", "garbage")):
        steps, viol = long_drain_runs(role)
        return (not viol), "\n".join(f"  {k}: {e['what']}" for k, e in viol.items()) or "large-message and held-partial scenarios pass"
    s = sess.new_session(role)
    twin = sess.new_session(role)
    stream, drained = b"", 0
    lines = []
    ok = True
    for ev in case["history"]:
        ev = tuple(ev)
        if ev[0] == "drain":
            amt = _amount(ev[1], len(stream) - drained)
            got = s.data_to_send(amt)
            exp = stream[drained:] if amt is None else stream[drained : drained + amt]
            drained += len(exp)
            lines.append(f"  data_to_send({amt}) -> {got.hex()[:50]} ; expected {exp.hex()[:50]}")
            ok &= got == exp
        else:
            texc = None
            try:
                sess.apply_event(role, twin, ev)
            except BaseException as e:  # noqa: BLE001
                texc = e
            enc = twin.data_to_send()
            try:
                sess.apply_event(role, s, ev)
                if ev[0] in ("call", "callbad"):
                    stream += enc
                lines.append(f"  {ev} accepted")
                if texc is not None:
                    ok = False
                    lines.append(f"     !! refused ({type(texc).__name__}) by the always-drained twin")
            except BaseException as e:  # noqa: BLE001
                lines.append(f"  {ev} refused: {type(e).__name__}")
                if texc is None:
                    ok = False
                    lines.append("     !! accepted by the always-drained twin")
        if A.public_view(s) != A.public_view(twin):
            ok = False
            lines.append(f"     !! visible state {A.public_view(s)} != always-drained twin {A.public_view(twin)}")
        rest = copy.deepcopy(s).data_to_send()
        if rest != stream[drained:]:
            ok = False
            lines.append(f"     !! pending {rest.hex()[:60]} != accepted-minus-drained {stream[drained:].hex()[:60]}")
    return ok, "\n".join(lines)


def long_drain_runs(role: str) -> t.Tuple[int, t.Dict[str, t.Dict[str, t.Any]]]:
    """Dozens of messages queued and drained with a fixed cycle of odd amounts (beyond the BFS's <= 3 sends):
    pending bytes must always equal the accepted encodings minus what was drained."""
    viol: t.Dict[str, t.Dict[str, t.Any]] = {}
    steps = 0
    cycles = {
        "trickle": [1, 2, 3, 5, 0, 7, 1],
        "blocks": [64, 0, 4096, 1, 63, 65],
        "lagging": [0, 0, 0, 0, 0, 0, 0, 0, 0, 0, 0, 0, 33],
        "exact": ["p", "p-1", "p+1", "None"],
    }
    for cname, cyc in cycles.items():
        s = sess.new_session(role)
        stream, drained = b"", 0
        hist: t.List[t.Any] = []

        def check(where: str) -> None:
            rest = copy.deepcopy(s).data_to_send()
            if rest != stream[drained:]:
                e = viol.setdefault(f"long-run-pending-differs:{role}:{cname}", {"what": f"[{cname}] after {where}: session holds {len(rest)} bytes, accepted-minus-drained is {len(stream) - drained}", "history": list(hist), "count": 0})
                e["count"] += 1

        n = 0
        for k in range(300 if cname == "blocks" else 60):
            if role == "client":
                evs = [("call", "search" if k % 2 else "ext", -1)]
            else:
                evs = [("recv", "SearchReq", k + 1), ("call", "entry", k + 1), ("call", "ref", k + 1), ("call", "done", k + 1), ("call", "done", k + 1)]
            for ev in evs:
                probe = copy.deepcopy(s)
                probe.data_to_send()
                try:
                    sess.apply_event(role, probe, ev)
                except BaseException:  # noqa: BLE001
                    pass
                enc = probe.data_to_send()
                if enc and ev[0] == "call":
                    den = sess.denotes(role, ev, sess._first_id(enc) or 0)
                    want = sess.reference_encoding(den) if den is not None else None
                    if want is not None and want != enc:
                        e = viol.setdefault(f"long-run-send-encodes-other-message:{role}:{ev[1]}", {"what": f"[{cname}] operation #{k + 1}: {ev[1]} put {enc.hex()[:60]} on the wire; the call denotes {want.hex()[:60]}", "history": list(hist) + [list(ev)], "count": 0})
                        e["count"] += 1
                try:
                    sess.apply_event(role, s, ev)
                    if ev[0] == "call":
                        stream += enc
                except BaseException:  # noqa: BLE001
                    pass
                hist.append(list(ev))
                steps += 1
                check(str(ev))
                a = cyc[n % len(cyc)]
                n += 1
                pending = len(stream) - drained
                amt = _amount(a, pending) if isinstance(a, str) else a
                got = s.data_to_send(amt)
                exp = stream[drained:] if amt is None else stream[drained : drained + amt]
                hist.append(["drain", str(a) if isinstance(a, str) else str(amt), -1])
                steps += 1
                if got != exp:
                    e = viol.setdefault(f"long-run-drain-wrong-bytes:{role}:{cname}", {"what": f"[{cname}] data_to_send({amt}) with {pending} pending returned {len(got)} bytes ({got[:12].hex()}..), expected {len(exp)} ({exp[:12].hex()}..)", "history": list(hist), "count": 0})
                    e["count"] += 1
                drained += len(exp)
                check(f"data_to_send({amt})")
    # a consumer that always lags: 1 KB messages, 700-octet drains, so the buffer never empties while >64 KiB go through
    for amount in (700, 1, 16384):
        s = L.LDAPClient() if role == "client" else L.LDAPServer()
        if role == "server":
            s.receive(sess.make_msg("SearchReq", 1).pack(sess.OPT))
        expect, got = b"", b""
        for k in range(120 if amount != 1 else 8):
            val = bytes([65 + k % 26]) * 1000
            if role == "client":
                mid = s.extended_request("1.2", val)
                expect += sess.reference_encoding(L.ExtendedRequest(mid, [], "1.2", val)) or b""
            else:
                s.search_result_entry(1, "cn=e", [L.PartialAttribute("a", [val])])
                expect += sess.reference_encoding(L.SearchResultEntry(1, [], "cn=e", [L.PartialAttribute("a", [val])])) or b""
            for _ in range(1 if amount != 1 else 300):
                got += s.data_to_send(amount)
            steps += 2
        got += s.data_to_send()
        if got != expect:
            pos = next((i for i in range(min(len(got), len(expect))) if got[i] != expect[i]), min(len(got), len(expect)))
            viol.setdefault(f"lagging-drain-stream-differs:{role}:{amount}", {"what": f"120 x 1 KB messages drained {amount} octets at a time: {len(got)} bytes out, {len(expect)} expected, first difference at offset {pos}", "history": ["lag", str(amount)], "count": 1})
    # large messages queued back to back, and one big drain while a partial incoming message is held
    big = b"v" * 70000
    for pattern in ("BB", "BSB", "SBB", "BBS", "BBB", "B" * 20, "SB" * 10):
        for drains in ((), (0,), (1,), (65536,), (None,)):
            if len(pattern) > 5 and drains not in ((), (1,)):
                continue
            s = L.LDAPClient() if role == "client" else L.LDAPServer()
            if role == "server":
                for i in range(1, 6):
                    s.receive(sess.make_msg("SearchReq", i).pack(sess.OPT))
            expect = b""
            for j, ch in enumerate(pattern):
                val = big if ch == "B" else b"s"
                try:
                    if role == "client":
                        mid = s.extended_request("1.2", val)
                        m = L.ExtendedRequest(mid, [], "1.2", val)
                    else:
                        s.search_result_entry(j % 5 + 1, "cn=e", [L.PartialAttribute("a", [val])])
                        m = L.SearchResultEntry(j % 5 + 1, [], "cn=e", [L.PartialAttribute("a", [val])])
                except L.LDAPError:
                    continue  # a refused send contributes nothing
                expect += sess.reference_encoding(m) or b""
                if j == 0:
                    for d in drains:
                        got = s.data_to_send(d)
                        if got != (expect if d is None else expect[:d]):
                            viol.setdefault(f"big-message-drain-wrong:{role}", {"what": f"pattern {pattern}, data_to_send({d}) returned {len(got)} bytes", "history": [pattern, list(map(str, drains))], "count": 1})
                        expect = expect[len(got):]
            steps += len(pattern) + len(drains)
            rest = s.data_to_send()
            if rest != expect:
                e = viol.setdefault(f"big-messages-lost-or-altered:{role}:{pattern}", {"what": f"messages {pattern} (B = 70 000-octet value) sent back to back with drains {drains} after the first: {len(rest)} bytes drained at the end, {len(expect)} expected", "history": [pattern, list(map(str, drains))], "count": 0})
                e["count"] += 1
    # a drain -- of any size -- must not disturb a partly received message
    peer = sess.make_msg("ExtResp" if role == "client" else "ExtReq", 1).pack(sess.OPT)
    for amount in (None, 0, 1, 65535, 65536, 65537, 10**6):
        for nbig in (0, 1, 2):
            s = L.LDAPClient() if role == "client" else L.LDAPServer()
            if role == "client":
                s.extended_request("1.2")
                s.data_to_send()
                for _ in range(nbig):
                    s.extended_request("1.3", big)
            else:
                s.receive(sess.make_msg("SearchReq", 9).pack(sess.OPT))
                for _ in range(nbig):
                    s.search_result_entry(9, "cn=e", [L.PartialAttribute("a", [big])])
            first = s.receive(peer[:5])
            state = s.state
            s.data_to_send(amount)
            steps += 3
            try:
                got = first + s.receive(peer[5:])
                ok = len(got) == 1 and s.state == state
                why = f"returned {len(got)} messages, state {s.state.name}"
            except BaseException as x:  # noqa: BLE001
                ok, why = False, f"raised {type(x).__name__}: {x}"
            if not ok:
                e = viol.setdefault(f"drain-disturbed-partial-receive:{role}", {"what": f"a message half received, then data_to_send({amount}) with {nbig} 70 000-octet message(s) pending, then the rest of the message: {why}", "history": ["partial", str(amount), nbig], "count": 0})
                e["count"] += 1
    return steps, viol


def run(ctx: evid.Ctx) -> None:
    max_sends = 3 if ctx.tier == "thorough" else 2
    for role in ("client", "server"):
        st = explore(role, max_sends if role == "client" else max(2, max_sends - 1) if ctx.tier == "quick" else max_sends, STATE_CAP[ctx.tier])
        ctx.add("states", st["states"])
        ctx.add("transitions", st["transitions"])
        ctx.add("traces_validated_against_impl", st["validated"])
        ctx.add(f"{role}_states", st["states"])
        if st["capped"]:
            ctx.exhaustive = False
            ctx.note(f"{role}_INCOMPLETE", f"state cap {STATE_CAP[ctx.tier]} reached: the space did not close (a session that differs after every drain?); violations found so far are reported")
            print(f"INCOMPLETE: {role} search stopped at the state cap ({st['states']} states); see evidence")
        ctx.distinct |= {(role,) + o for o in st["outcomes"]}
        for k, e in st["viol"].items():
            ctx.violation(k, e["what"], {"role": role, "history": e["history"]}, e["count"])
        for s in st["samples"][:2]:
            ctx.sample(s)
    for role in ("client", "server"):
        steps, viol = long_drain_runs(role)
        ctx.add("transitions", steps)
        ctx.add("long_run_steps", steps)
        for k, e in viol.items():
            ctx.violation(k, e["what"], {"role": role, "history": e["history"]}, e["count"])
    ctx.counters["evaluations"] = ctx.counters.get("transitions", 0)
    ctx.rule = (
        "explicit-state BFS over one real session with the outgoing buffer kept; transitions are send calls and "
        "data_to_send(a) for a in " + str(AMOUNTS) + "; invariant on every edge: pending bytes == ghost stream of accepted "
        "sends minus bytes drained; distinct_nontrivial counts distinct (event, outcome) classes"
    )
    ctx.bounds = {"max_sends": max_sends, "amounts": AMOUNTS}
    ctx.assumptions = ["negative amounts are outside the property's domain ('all, zero, less or more than what is pending')"]


def replay(case: t.Dict[str, t.Any], key: t.Optional[str] = None) -> t.Tuple[bool, str]:
    return replay_case(case)
