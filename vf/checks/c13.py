"""C13 -- filter objects survive conversion to text and back (no filter injection)."""
from __future__ import annotations

import itertools
import typing as t

import sansldap as L

from vf import abs as A
from vf.checks import common as K
from vf.engine import evid, par
from vf.ref import filt

SYMS = [bytes([c]) for c in b"()*\\\x00 =:~<>!&|\x7f\x80\xff5cC28"]
assert len(SYMS) == 22
ATTRS = ["cn", "2.5.4.3", "cn;lang-en;x-1"]

LEAF_MAKERS: t.List[t.Tuple[str, t.Callable[[bytes, str], t.Any]]] = [
    ("eq", lambda v, a: L.FilterEquality(a, v)),
    ("ge", lambda v, a: L.FilterGreaterOrEqual(a, v)),
    ("le", lambda v, a: L.FilterLessOrEqual(a, v)),
    ("approx", lambda v, a: L.FilterApproxMatch(a, v)),
    ("ext-full", lambda v, a: L.FilterExtensibleMatch("caseExactMatch", a, v, True)),
    ("ext-rule", lambda v, a: L.FilterExtensibleMatch("2.5.13.2", None, v, False)),
    ("nested", lambda v, a: L.FilterNot(L.FilterAnd([L.FilterEquality(a, v), L.FilterPresent("2.5.4.3")]))),
]


def check_one(f: t.Any) -> t.Optional[t.Tuple[str, str]]:
    try:
        s = str(f)
    except BaseException as e:  # noqa: BLE001
        return (f"str-raises:{K.exc_key(e)}", f"str() raised {type(e).__name__}: {e}")
    try:
        r = L.LDAPFilter.from_string(s)
    except BaseException as e:  # noqa: BLE001
        return (f"reparse-raises:{type(f).__name__}:{type(e).__name__}", f"text form {s!r} does not parse: {type(e).__name__}: {e}")
    if r != f:
        shape = "shape" if type(r) is not type(f) else "value"
        return (f"reparse-differs:{type(f).__name__}:{shape}", f"text form {s!r} parses to {A.src(r)[:160]}")
    # the parse result belongs to the caller: changing it must not change what the same text parses to next
    touched = False
    for lst in (getattr(r, "filters", None), getattr(r, "any", None)):
        if isinstance(lst, list):
            lst.append(lst[0] if lst else b"x")
            touched = True
    if touched:
        try:
            r3 = L.LDAPFilter.from_string(s)
        except BaseException as e:  # noqa: BLE001
            return (f"reparse-after-caller-change-raises:{type(e).__name__}", f"{s!r}: {e}")
        if r3 != f:
            return ("parse-result-shared-between-calls", f"after the caller changed the object returned for {s!r}, parsing the same text again gives {A.src(r3)[:160]}")
    try:
        tree = filt.strict_ok(s)
    except filt.Bad as e:
        return (f"not-rfc4515:{type(f).__name__}:{e}", f"text form {s!r} is not RFC 4515: {e}")
    if tree != A.absfilter(f):
        return (f"rfc4515-denotes-other:{type(f).__name__}", f"text form {s!r} denotes {tree!r} under RFC 4515")
    return None


def values(maxlen: int, first: bytes) -> t.Iterator[bytes]:
    for ln in range(1, maxlen + 1):
        for tup in itertools.product(SYMS, repeat=ln - 1):
            yield first + b"".join(tup)


def trees(leaves: t.List[t.Any], depth: int) -> t.List[t.Any]:
    cur = list(leaves)
    for _ in range(depth):
        nxt = list(leaves)
        for x in cur:
            nxt.append(L.FilterNot(x))
            nxt.append(L.FilterAnd([x]))
            nxt.append(L.FilterOr([x]))
        for x, y in itertools.product(cur, repeat=2):
            nxt.append(L.FilterAnd([x, y]))
            nxt.append(L.FilterOr([x, y]))
        cur = nxt
    return cur


_X: t.Dict[str, t.Any] = {}


def _work(job: t.Tuple[t.Any, ...]) -> evid.Local:
    # a library call that never returns is reported (CallDoesNotReturn), it does not hang the check
    with K.watchdog():
        return _work_cases(job)


def _work_cases(job: t.Tuple[t.Any, ...]) -> evid.Local:
    loc = evid.Local()
    fam = job[0]

    def rec(f: t.Any, desc: str) -> None:
        loc.add("states")
        loc.add("transitions", 3)
        r = check_one(f)
        if r:
            loc.violation(r[0], r[1], {"filter": A.src(f)})

    if fam == "all2":
        hi = job[1]
        for lo in range(256):
            v = bytes([hi, lo])
            for name, mk in LEAF_MAKERS:
                for a in ATTRS:
                    rec(mk(v, a), name)
        v1 = bytes([hi])
        for name, mk in LEAF_MAKERS:
            for a in ATTRS:
                rec(mk(v1, a), name)
        loc.distinct.add(("all2", hi))
    elif fam == "sym":
        first, maxlen = job[1], job[2]
        for v in values(maxlen, first):
            for name, mk in LEAF_MAKERS:
                rec(mk(v, "cn"), name)
        loc.distinct.add(("sym", first, maxlen))
    elif fam == "empty":
        for name, mk in LEAF_MAKERS:
            for a in ATTRS:
                rec(mk(b"", a), name)
        for a in ATTRS + ["objectClass", "a-b", "A1", "0.9.2342.19200300.100.1.1", "cn;x-1;y-2"]:
            rec(L.FilterPresent(a), "present")
        loc.distinct.add(("empty",))
    elif fam == "sub":
        ini = job[1]
        comps = _X["comps"]
        anys = _X["anys"]
        for fin in [None] + comps:
            for anyl in anys:
                if ini is None and fin is None and not anyl:
                    continue
                rec(L.FilterSubstrings("cn", ini, list(anyl), fin), "sub")
        loc.distinct.add(("sub", ini))
    elif fam == "ext":
        for rule in (None, "caseExactMatch", "2.5.13.2", "x-y"):
            for a in (None, "cn", "cn;lang-en", "2.5.4.3", "dn"):
                if rule is None and a is None:
                    continue
                for dn in (False, True):
                    for v in [b""] + SYMS + [x + y for x in SYMS[:8] for y in SYMS[:8]]:
                        rec(L.FilterExtensibleMatch(rule, a, v, dn), "ext")
        # names that begin with, contain or are a case variant of the ':dn' flag (recognising the flag by prefix or by
        # position would take them for it), and values that look like header fields
        for rule in (None, "dnSubtreeMatch", "DNy", "dn-1", "dnx", "dN1", "adn", "d", "n", "DN-", "distinguishedNameMatch"):
            for a in (None, "cn", "dn", "DN", "dnQualifier", "dn;x-1", "Dn"):
                if rule is None and a is None:
                    continue
                for dn in (False, True):
                    for v in (b"", b"v", b":dn:", b":", b"dn", b":=", b"dn:=x"):
                        rec(L.FilterExtensibleMatch(rule, a, v, dn), "ext")
        # matching rules an LDAP product gives a special meaning (Active Directory's bitwise and in-chain rules) with values
        # that look like numbers in another base, and values that look like URL escapes: RFC 4515 gives neither any meaning
        for rule in ("1.2.840.113556.1.4.803", "1.2.840.113556.1.4.804", "1.2.840.113556.1.4.1941", "2.5.13.2"):
            for a in ("userAccountControl", None):
                for v in (b"0x2", b"0X1F", b"2", b"010", b"0b1", b"-1", b"1e3", b"%32", b"%25"):
                    rec(L.FilterExtensibleMatch(rule, a, v, False), "ext")
        for v in (b"100%25", b"%", b"%%", b"%2", b"%41", b"x%29%28uid=%2a", b"%5c28", b"+", b"a+b", b"&amp;", b"&#40;", b"\\u0028", b"$(x)", b"${x}", b"{0}", b"%s", b"%(a)s"):
            for name, mk in LEAF_MAKERS:
                rec(mk(v, "cn"), name)
            rec(L.FilterAnd([L.FilterEquality("objectClass", b"person"), L.FilterEquality("cn", v)]), "pct")
            rec(L.FilterSubstrings("cn", v, [v], v), "pct")
        # one object used at two places of a tree (an application builds `enabled = FilterNot(...)` once and uses it twice)
        shared_not = L.FilterNot(L.FilterEquality("userAccountControl", b"2"))
        shared_and = L.FilterAnd([L.FilterPresent("mail"), shared_not])
        shared_leaf = L.FilterEquality("cn", b"x")
        for f in (L.FilterOr([shared_not, L.FilterAnd([L.FilterPresent("cn"), shared_not])]), L.FilterAnd([shared_and, shared_and]), L.FilterAnd([shared_leaf, L.FilterNot(shared_leaf), shared_leaf]),
                  L.FilterOr([L.FilterAnd([shared_and, shared_not]), L.FilterNot(shared_and)])):
            rec(f, "shared")
        loc.distinct.add(("ext",))
    elif fam == "large":
        # beyond short values and shallow trees
        big = [b"a" * 300, b"\\" * 40 + b"*" * 40 + b"(" * 40, bytes(range(256)) * 2, b" " * 70, b"\x00" * 129, "\u00e9".encode() * 150]
        for v in big:
            for name, mk in LEAF_MAKERS:
                rec(mk(v, "cn"), name)
            rec(L.FilterSubstrings("cn", v, [v, b"x", v], v), "sub")
            rec(L.FilterSubstrings("cn", None, [b"%d" % i for i in range(40)] + [v], None), "sub")
        # values whose text form crosses 4 KiB / 8 KiB / 64 KiB with an escape at every alignment
        for base in (4096, 8192, 65536):
            for n in range(base - 12, base + 4):
                v = b"a" * n + b"\xe9" + b"b*"
                rec(L.FilterEquality("cn", v), "eq")
                rec(L.FilterSubstrings("cn", v, [v], None), "sub")
        # every value length 1..1100 (block-wise scanners), alone and with a sibling after it
        for n in range(1, 1101):
            v = b"A" * n
            rec(L.FilterAnd([L.FilterEquality("cn", v), L.FilterPresent("objectClass")]), "len")
            if n % 7 == 0:
                rec(L.FilterAnd([L.FilterSubstrings("cn", v, [], v[: n // 2 + 1]), L.FilterExtensibleMatch("r", "cn", v, True)]), "len")
        # attribute descriptions with many options / long names / long oids
        for a in ["cn;" + ";".join("x-%d" % i for i in range(40)), "a" * 300, "1.2." + ".".join(str(i) for i in range(80)), "cn;lang-" + "e" * 200]:
            rec(L.FilterEquality(a, b"v"), "attr")
            rec(L.FilterExtensibleMatch("r" * 200, a, b"v", True), "attr")
            rec(L.FilterPresent(a), "attr")
        leaf = L.FilterEquality("cn", b")(")
        chain: t.Any = leaf
        for i in range(60):
            chain = L.FilterNot(chain) if i % 3 == 0 else L.FilterAnd([chain, leaf]) if i % 3 == 1 else L.FilterOr([leaf, chain])
            if i in (9, 11, 29, 59):
                rec(chain, "deep")
        # nesting as deep as the parser accepts (its limit is the interpreter's recursion limit, ~490 levels): the text form
        # must exist, be the RFC's (built here alongside the tree) and parse back to an equal tree (compared iteratively)
        from vf.checks.c15 import same_filter

        for depth in (100, 200, 249, 250, 251, 300, 400, 450):
            for shape in ("not", "and", "or", "mix"):
                node: t.Any = L.FilterEquality("cn", b")(")
                text = "(cn=\\29\\28)"
                for i in range(depth):
                    op = shape if shape != "mix" else ("not", "and", "or")[i % 3]
                    if op == "not":
                        node, text = L.FilterNot(node), f"(!{text})"
                    elif op == "and":
                        node, text = L.FilterAnd([node, L.FilterPresent("a")]), f"(&{text}(a=*))"
                    else:
                        node, text = L.FilterOr([L.FilterPresent("a"), node]), f"(|(a=*){text})"
                loc.add("states")
                loc.add("transitions", 3)
                case = {"deep": [shape, depth]}
                try:
                    got = str(node)
                except BaseException as e:  # noqa: BLE001
                    loc.violation(f"str-raises:{type(e).__name__}:deep-nesting", f"str() of a {shape} chain nested {depth} deep raised {type(e).__name__}", case)
                    continue
                if got != text:
                    loc.violation(f"text-form-wrong:deep-nesting:{shape}", f"{shape} chain nested {depth} deep prints as {got[:60]}...", case)
                    continue
                try:
                    back = L.LDAPFilter.from_string(got)
                except BaseException as e:  # noqa: BLE001
                    loc.violation(f"reparse-raises:{type(e).__name__}:deep-nesting", f"text form of a {shape} chain nested {depth} deep does not parse: {type(e).__name__}: {str(e)[:80]}", case)
                    continue
                if not same_filter(back, node):
                    loc.violation(f"reparse-differs:deep-nesting:{shape}", f"text form of a {shape} chain nested {depth} deep parses to a different tree", case)
        rec(L.FilterAnd([L.FilterEquality("cn", b"v%d*" % i) for i in range(1500)]), "wide")
        rec(L.FilterSubstrings("cn", b"*", [b"%d" % i for i in range(1500)], b"\\"), "wide")
        rec(L.FilterOr([L.FilterAnd([L.FilterPresent("a%d" % i), L.FilterNot(L.FilterApproxMatch("b", b"~%d" % i))]) for i in range(64)]), "wide")
        loc.distinct.add(("large",))
    elif fam == "trees":
        lo, hi = job[1], job[2]
        for f in _X["trees"][lo:hi]:
            rec(f, "tree")
        loc.distinct.add(("trees", lo))
    return loc


def run(ctx: evid.Ctx) -> None:
    thorough = ctx.tier == "thorough"
    maxlen = 5 if thorough else 4
    comps = SYMS + [x + y for x in SYMS[:8] for y in SYMS[:8]]
    _X["comps"] = comps
    _X["anys"] = [(), (b"a",), (b"*",), (b"\\", b"(")] + [(c,) for c in SYMS] + [(b")", c) for c in SYMS[:6]]
    leaves12 = [
        L.FilterEquality("cn", b"a"), L.FilterEquality("cn", b")(x=*"), L.FilterPresent("o"), L.FilterSubstrings("cn", b"*", [b"\\"], None),
        L.FilterGreaterOrEqual("n", b"\x00"), L.FilterLessOrEqual("n", b"\xff"), L.FilterApproxMatch("cn;x-1", b"~="),
        L.FilterExtensibleMatch("r", "cn", b":=", True), L.FilterExtensibleMatch("2.5.13.2", None, b"(", False), L.FilterSubstrings("cn", None, [b"a", b"b"], b"("),
        L.FilterEquality("2.5.4.3", b""), L.FilterExtensibleMatch(None, "cn", b"!", False),
    ]  # fmt: skip
    t2 = trees(leaves12, 2)
    t3 = trees(leaves12[:3], 3) if thorough else trees(leaves12[:2], 3)[:40000]
    _X["trees"] = t2 + t3
    jobs: t.List[t.Tuple[t.Any, ...]] = [("all2", hi) for hi in range(256)]
    jobs += [("sym", s, maxlen) for s in SYMS]
    jobs += [("empty",), ("ext",), ("large",)]
    jobs += [("sub", ini) for ini in [None] + comps]
    jobs += [("trees", a, b) for a, b in par.split(len(_X["trees"]), 64)]
    for loc in par.pmap(_work, jobs, ctx.seed):
        evid.absorb(ctx, loc)
    ctx.counters["evaluations"] = ctx.counters.get("states", 0)
    for f in (LEAF_MAKERS[0][1](b")(x=*", "cn"), L.FilterSubstrings("cn", b"*", [b"\\", b"("], b"\x00"), t2[-1]):
        try:
            ctx.sample({"filter": A.src(f), "text": str(f)})
        except BaseException:  # noqa: BLE001 - reported by check_one
            ctx.sample({"filter": A.src(f)})
    ctx.rule = (
        "one case = one filter object; str(f) is parsed back by the library (must equal f), recognised by the strict RFC 4515 "
        "reference (no spaces, every special octet escaped) and must denote abs(f) there; distinct_nontrivial counts the "
        "disjoint enumeration partitions"
    )
    ctx.bounds = {"all_values_up_to_octets": 2, "symbol_alphabet": [s.hex() for s in SYMS], "symbol_values_up_to": maxlen,
                  "substring_components": len(comps), "trees_depth2_over_leaves": 12, "trees": len(_X["trees"])}  # fmt: skip
    ctx.assumptions = [
        "excluded because RFC 4515 text cannot express them: empty substring components, a substring filter with no component, "
        "an extensible match with neither rule nor attribute, a matching rule literally named 'dn'",
        "attribute descriptions are RFC 4512-valid (the property's premise)",
        "nesting up to 450 levels; the parser reports text nested deeper than the interpreter's recursion limit allows (~490 levels) as a syntax error, which is resource exhaustion and not covered",
    ]


def replay(case: t.Dict[str, t.Any], key: t.Optional[str] = None) -> t.Tuple[bool, str]:
    if "deep" in case:
        from vf.checks.c15 import same_filter

        shape, depth = case["deep"]
        node: t.Any = L.FilterEquality("cn", b")(")
        for i in range(depth):
            op = shape if shape != "mix" else ("not", "and", "or")[i % 3]
            node = L.FilterNot(node) if op == "not" else L.FilterAnd([node, L.FilterPresent("a")]) if op == "and" else L.FilterOr([L.FilterPresent("a"), node])
        try:
            back = L.LDAPFilter.from_string(str(node))
        except BaseException as e:  # noqa: BLE001
            return False, f"{shape} chain nested {depth} deep: {type(e).__name__}: {str(e)[:100]}"
        return same_filter(back, node), f"{shape} chain nested {depth} deep: text form parses back to an equal tree: {same_filter(back, node)}"
    f = A.unsrc(case["filter"])
    r = check_one(f)
    try:
        text = repr(str(f))
    except BaseException as e:  # noqa: BLE001
        text = f"<str() raised {type(e).__name__}>"
    return (r is None), f"{case['filter'][:300]}\n  text: {text}" + (f"\n  {r[0]}: {r[1]}" if r else "\n  round-trips")
