"""C18 -- parsing cost grows polynomially with input size.  Wall-clock time is never the oracle.

1. Regular expressions, for inputs of unbounded length: every pattern the library compiles or
   passes to ``re`` (captured by vf/checks/c18_capture.py in a fresh interpreter) is translated to
   an epsilon-NFA and the product of the automaton with itself is searched exhaustively for
   exponential ambiguity (vf/ref/rxnfa.py).  The model is bound to the code by replaying every
   viable short word against the real engine.  A reported ambiguity becomes a VIOLATION only when
   the pumped family also blows up on the real engine.
2. Hand-written scanners (filter parser, schema extension parser, receive): cost = bytecode
   instructions executed inside sansldap (sys.monitoring), measured on every pumped family
   u v^k w / u v^k m w^k within bounds for k = 8, 16, 32, 64; oracle cost(2k) <= 8 cost(k) + c.
"""
from __future__ import annotations

import itertools
import json
import os
import subprocess
import sys
import typing as t

import sys

import sansldap as L
import sansldap.asn1
import sansldap.schema as S

from vf.checks import c05, c15, c17
from vf.engine import evid, par
from vf.engine.icount import Counter
from vf.ref import rxnfa

# every module of the package that is loaded (however the package is split into files)
MODS = [m for n, m in sorted(sys.modules.items()) if (n == "sansldap" or n.startswith("sansldap.")) and getattr(m, "__file__", None)]
KS = (8, 16, 32, 64)
SLACK = 60000  # one-off step when a pumped structure first becomes complete (parsing <= ~130 bytes); exponential families exceed it by k = 32
BUDGET = 4_000_000
WALL_S = 4.0


def capture() -> t.List[t.Dict[str, t.Any]]:
    env = dict(os.environ, PYTHONHASHSEED="0")
    out = subprocess.run([sys.executable, os.path.join(os.path.dirname(__file__), "c18_capture.py")], capture_output=True, text=True, env=env, timeout=300, cwd=evid.ROOT)
    if out.returncode != 0:
        raise RuntimeError("regex capture failed: " + out.stderr[-2000:])
    pats = json.loads(out.stdout)
    for p in pats:
        if p["pattern"].startswith("bytes:"):
            p["pattern"] = p["pattern"][6:].encode("latin-1")
    return pats


def _regex_job(p: t.Dict[str, t.Any]) -> t.Dict[str, t.Any]:
    res: t.Dict[str, t.Any] = {"pattern": p, "violations": [], "notes": []}
    pat, flags = p["pattern"], p["flags"]
    try:
        an = rxnfa.analyse(pat, flags)
    except rxnfa.Unsupported as e:
        res["unanalysed"] = str(e)
        return res
    res.update(nfa_states=an.nfa_states, product_states=an.product_states, product_transitions=an.product_transitions, minterms=an.minterms, edges=an.edges)
    words, bad, capped = rxnfa.conformance(pat, flags, p["maxlen"], p["cap"])
    res.update(words=words, capped=capped)
    if bad:
        res["model_mismatch"] = bad
        return res
    for w in an.edas:
        hit = None
        for method in p["methods"]:
            m = method if method in ("match", "fullmatch", "search", "sub") else "search"
            hit = rxnfa.confirm_blowup(pat, flags, m, w)
            if hit:
                hit["method"] = method
                break
        fam = f"{w['prefix']!r} + {w['pump']!r}*k"
        if hit:
            res["violations"].append((f"regex-exponential:{p['callers'][0]}:pump={w['pump']!r}", f"pattern {str(pat)[:60]!r}.. used by {p['callers']} is exponentially ambiguous; on the real engine {hit['family']} takes {hit['seconds']}s at k={hit['k']} and grows >=1.7x per added pump", {"pattern": pat if isinstance(pat, str) else {"hex": pat.hex()}, "flags": flags, "method": hit["method"], "prefix": w["prefix"] if isinstance(w["prefix"], str) else {"hex": w["prefix"].hex()}, "pump": w["pump"] if isinstance(w["pump"], str) else {"hex": w["pump"].hex()}, "tail": hit["tail"] if isinstance(hit["tail"], str) else {"hex": hit["tail"].hex()}}))
        else:
            res["notes"].append(f"model reports exponential ambiguity for {fam} but the real engine does not blow up (an sre optimisation the model does not know); not reported")
    return res


# ---- part 2: instruction-count families -------------------------------------------------------
_C: t.Dict[str, t.Any] = {}


def _counter() -> Counter:
    c = _C.get("counter")
    if c is None:
        c = _C["counter"] = Counter(MODS)
    return c


def family_costs(make_input: t.Callable[[int], t.Any], run: t.Callable[[t.Any], t.Any]) -> t.List[t.Tuple[int, int, t.Optional[str]]]:
    out = []
    c = _counter()
    for k in KS:
        x = make_input(k)
        n, outcome = c.measure(lambda: run(x), BUDGET, WALL_S)
        out.append((k, n, outcome))
        if outcome in ("BUDGET", "WALL"):
            break
    return out


def judge(costs: t.List[t.Tuple[int, int, t.Optional[str]]]) -> t.Optional[str]:
    done = [c for c in costs if c[2] not in ("BUDGET", "WALL")]
    for (k1, n1, _), (k2, n2, _) in zip(done, done[1:]):
        if n2 > 8 * n1 + SLACK:
            return f"cost({k2}) = {n2} instructions > 8 x cost({k1}) + {SLACK} = {8 * n1 + SLACK}"
    for k, n, outcome in costs:
        if outcome == "BUDGET":
            return f"instruction budget ({BUDGET}) exceeded at k={k}"
        if outcome == "WALL":
            return f"did not finish within {WALL_S}s at k={k} (time spent outside counted instructions, i.e. in the regex engine)"
    for (k1, n1, _), (k2, n2, _) in zip(costs, costs[1:]):
        if n2 > 8 * n1 + SLACK:
            return f"cost({k2}) = {n2} > 8 x cost({k1}) + {SLACK} = {8 * n1 + SLACK}"
    return None


def run_filter(s: str) -> None:
    try:
        L.LDAPFilter.from_string(s)
    except ValueError:
        pass


def run_schema(kind_s: t.Tuple[str, str]) -> None:
    try:
        c17.CLS[kind_s[0]].from_string(kind_s[1])
    except ValueError:
        pass


def run_receive(arg: t.Tuple[bytes, bool]) -> None:
    data, bytewise = arg
    s = L.LDAPServer()
    try:
        if bytewise:
            for i in range(len(data)):
                s.receive(data[i : i + 1])
        else:
            s.receive(data)
    except L.ProtocolError:
        pass


FA = c15.ALPHA
FV = FA + ["".join(p) for p in itertools.product(FA, repeat=2)]
BV = [bytes([b]) for b in c05.STRUCT] + [bytes(p) for p in itertools.product(c05.STRUCT, repeat=2)]
TOK = c17.TOKENS
TV = TOK + ["".join(p) for p in itertools.product(TOK, repeat=2)]


def _fam_job(job: t.Tuple[t.Any, ...]) -> evid.Local:
    loc = evid.Local()
    fam = job[0]

    def rec(costs: t.List[t.Tuple[int, int, t.Optional[str]]], desc: t.Dict[str, t.Any], what: str) -> None:
        loc.add("states")
        loc.add("families_measured")
        loc.add("transitions", len(costs))
        why = judge(costs)
        if why:
            kind = "regex-engine-time" if "regex engine" in why else "instructions"
            loc.violation(f"superpolynomial-scan:{fam}:{kind}:{str(desc.get('v', desc.get('fam')))!r:.24}", f"{what}: {why}; costs {[(k, n) for k, n, _ in costs]}", desc)

    if fam == "filter1":
        u_set, w_set, lo, hi = job[1], job[2], job[3], job[4]
        for v in FV[lo:hi]:
            for u in u_set:
                for w in w_set:
                    rec(family_costs(lambda k: u + v * k + w, run_filter), {"fam": "filter", "u": u, "v": v, "w": w}, f"from_string({u!r} + {v!r}*k + {w!r})")
    elif fam == "filter2":
        lo, hi = job[1], job[2]
        for v in FV[lo:hi]:
            for w in FA:
                for m in ("", "(a=b)", "a=b"):
                    rec(family_costs(lambda k: v * k + m + w * k, run_filter), {"fam": "filter2", "v": v, "m": m, "w": w}, f"from_string({v!r}*k + {m!r} + {w!r}*k)")
    elif fam == "schema":
        lo, hi = job[1], job[2]
        for v in TV[lo:hi]:
            for kind in c17.CLS:
                for u in ("( 1.2", "( 1.2 X-A ", "( 1.2 DESC '", "( 1.2 X-A ( "):
                    for w in ("", " )", "' )"):
                        rec(family_costs(lambda k: (kind, u + v * k + w), run_schema), {"fam": "schema", "kind": kind, "u": u, "v": v, "w": w}, f"{kind}.from_string({u!r} + {v!r}*k + {w!r})")
    elif fam == "recv":
        lo, hi = job[1], job[2]
        us = [b""] + [bytes([b]) for b in c05.STRUCT]
        for v in BV[lo:hi]:
            for u in us:
                for w in (b"", b"\x00", b"\x30", b"\xff"):
                    for bytewise in (False, True):
                        rec(family_costs(lambda k: (u + v * k + w, bytewise), run_receive), {"fam": "recv", "u": u.hex(), "v": v.hex(), "w": w.hex(), "bytewise": bytewise}, f"receive({u.hex()} + {v.hex()}*k + {w.hex()}, bytewise={bytewise})")
    elif fam == "nest":
        for tagb in (0xA2, 0xA0, 0xA1):
            for form in ("min", "84"):
                for bytewise in (False, True):
                    rec(family_costs(lambda k: (c05.nested_search(tagb, k, form), bytewise), run_receive), {"fam": "nest", "tag": tagb, "form": form, "bytewise": bytewise}, f"receive(search request with k nested {tagb:#x} filters)")
        for op in "!&|":
            for shape in ("balanced", "unclosed", "overclosed", "spaced"):
                rec(family_costs(lambda k: c15.nest(op, k, shape), run_filter), {"fam": "filter-nest", "op": op, "shape": shape}, f"from_string(k nested '({op}', {shape})")
        # many messages / many controls / many attributes in one delivery
        req = L.ExtendedRequest(1, [], "1.2", None).pack(c05.K.OPTS)
        rec(family_costs(lambda k: (req * k, False), run_receive), {"fam": "many-pdus"}, "receive(k PDUs in one chunk)")
        rec(family_costs(lambda k: (req * k, True), run_receive), {"fam": "many-pdus-bytewise"}, "receive(k PDUs byte-at-a-time)")
    elif fam == "msg-junk":
        # well-formed messages of every kind with k copies of an element the receiver does not know appended to the
        # envelope / to the operation (RFC 4511 extensibility: skipped, at a cost linear in k)
        from vf.ref import ber

        res = L.LDAPResult(L.LDAPResultCode.SUCCESS, "", "", None)
        bases = [
            ("server", [], L.BindRequest(1, [], 3, "", L.SimpleCredential("p"))),
            ("server", [], L.SearchRequest(1, [], "", L.SearchScope.BASE, L.DereferencingPolicy.NEVER, 0, 0, False, L.FilterPresent("a"), [])),
            ("server", [], L.ExtendedRequest(1, [], "1.2", None)),
            ("server", [], L.UnbindRequest(1, [])),
            ("client", ["bind"], L.BindResponse(1, [], res, None)),
            ("client", ["search"], L.SearchResultEntry(1, [], "", [])),
            ("client", ["search"], L.SearchResultReference(1, [], ["u"])),
            ("client", ["search"], L.SearchResultDone(1, [L.LDAPControl("1.2", False, None)], res)),
            ("client", ["ext"], L.ExtendedResponse(1, [], res, None, None)),
        ]
        junks = {"ctx10": ber.Node(ber.CONTEXT, False, 10, b"1.2.3"), "ctx11": ber.Node(ber.CONTEXT, False, 11, b"v"), "ctx25": ber.Node(ber.CONTEXT, False, 25, b"\x01"),
                 "app7": ber.Node(ber.APPLICATION, False, 7, b"abc"), "ubool": ber.Node(ber.UNIVERSAL, False, 1, b"\xff"), "ctx3-cons": ber.Node(ber.CONTEXT, True, 3, None, [ber.Node(ber.UNIVERSAL, False, 4, b"x")])}  # fmt: skip

        def run_msg(arg: t.Tuple[str, t.List[str], bytes]) -> None:
            role, prelude, data = arg
            sx: t.Any = L.LDAPServer() if role == "server" else L.LDAPClient()
            for pz in prelude:
                {"bind": lambda c: c.bind_simple(), "search": lambda c: c.search_request(), "ext": lambda c: c.extended_request("1.2")}[pz](sx)
            try:
                sx.receive(data)
            except L.ProtocolError:
                pass

        for role, prelude, m in bases:
            tree0, _ = ber.parse_one(m.pack(c05.K.OPTS), 0, strict=False)
            for jn, jnode in junks.items():
                for where in ("envelope", "operation", "controls-entry"):
                    def make(k: int, where: str = where, jnode: t.Any = jnode, tree0: t.Any = tree0) -> t.Optional[bytes]:
                        tr = tree0.copy()
                        if where == "envelope":
                            tgt = tr
                        elif where == "operation":
                            tgt = tr.children[1]
                        else:
                            tgt = tr.children[2].children[0] if len(tr.children) > 2 and tr.children[2].children else None
                        if tgt is None or tgt.children is None:
                            return None
                        tgt.children += [jnode.copy() for _ in range(k)]
                        return ber.encode(tr)

                    if make(1) is None:
                        continue
                    rec(family_costs(lambda k: (role, prelude, make(k)), run_msg), {"fam": "msg-junk", "msg": type(m).__name__, "junk": jn, "where": where}, f"receive({type(m).__name__} with k unknown {jn} elements appended to the {where})")
    loc.distinct.add(job[:1] + tuple(job[-2:]))
    return loc


def run(ctx: evid.Ctx) -> None:
    thorough = ctx.tier == "thorough"
    pats = capture()
    for p in pats:
        big = len(str(p["pattern"])) > 300
        p["maxlen"] = (5 if thorough else 4) if big else (7 if thorough else 6)
        p["cap"] = 30000 if thorough else 6000
    results = par.pmap(_regex_job, pats, ctx.seed)
    unanalysed = []
    for r in results:
        p = r["pattern"]
        if "unanalysed" in r:
            unanalysed.append({"pattern": str(p["pattern"])[:80], "why": r["unanalysed"]})
            continue
        ctx.add("states", r["product_states"] + r["nfa_states"])
        ctx.add("transitions", r["product_transitions"])
        ctx.add("traces_validated_against_impl", r["words"])
        ctx.add("regex_product_states", r["product_states"])
        ctx.add("regex_words_replayed", r["words"])
        ctx.distinct.add(("regex", str(p["pattern"])[:200], p["flags"]))
        if "model_mismatch" in r:
            raise AssertionError(f"regex model does not conform to re for {str(p['pattern'])[:80]!r}: {r['model_mismatch']}")
        for k, w, case in r["violations"]:
            ctx.violation(k, w, {"regex": case})
        for n in r["notes"]:
            ctx.notes.setdefault("unconfirmed_ambiguities", []).append(n)
    ctx.note("patterns_analysed", [{"callers": r["pattern"]["callers"], "methods": r["pattern"]["methods"], "pattern": str(r["pattern"]["pattern"])[:60], "nfa_states": r.get("nfa_states"), "product_states": r.get("product_states"), "words_replayed": r.get("words"), "replay_capped": r.get("capped")} for r in results])
    ctx.note("unanalysed_patterns", unanalysed)
    # part 2
    jobs: t.List[t.Tuple[t.Any, ...]] = []
    nfv = len(FV)
    if thorough:
        jobs += [("filter1", [""] + FA, [""] + FA, a, b) for a, b in par.split(nfv, 200)]
    else:
        jobs += [("filter1", ["", "("], ["", ")"], a, b) for a, b in par.split(nfv, 32)]
        jobs += [("filter1", FA, FA, a, b) for a, b in par.split(len(FA), 21)]
    jobs += [("filter2", a, b) for a, b in par.split(nfv if thorough else len(FA), 64)]
    jobs += [("schema", a, b) for a, b in par.split(len(TV) if thorough else len(TOK), 48)]
    jobs += [("recv", a, b) for a, b in par.split(len(BV) if thorough else len(c05.STRUCT), 48)]
    jobs.append(("nest", 0, 0))
    jobs.append(("msg-junk", 0, 0))
    for loc in par.pmap(_fam_job, jobs, ctx.seed):
        evid.absorb(ctx, loc)
    ctx.counters["evaluations"] = ctx.counters.get("states", 0)
    ctx.sample({"family": "from_string('(!'*k + '(a=b)' + ')'*k)", "costs": family_costs(lambda k: "(!" * k + "(a=b)" + ")" * k, run_filter)})
    ctx.sample({"regex": str(pats[1]["pattern"])[:80], "analysis": "product automaton searched for an SCC with a diagonal and an off-diagonal pair"})
    ctx.rule = (
        "regexes: states = NFA + product-automaton states, transitions = product transitions, traces validated = words replayed "
        "against the real re engine; scanners: one case = one pumped family measured at k = 8,16,32,64 in sansldap bytecode "
        "instructions; distinct_nontrivial counts patterns analysed plus disjoint family partitions"
    )
    ctx.bounds = {"k": list(KS), "ratio": 8, "slack": SLACK, "budget": BUDGET, "filter_alphabet": FA, "byte_alphabet": c05.STRUCT.hex(), "schema_tokens": TOK,
                  "families": "u v^k w with |v| <= 2; two-pump v^k m w^k; nesting; many PDUs", "regex_replay_len": "4..7 symbols over minterm representatives"}  # fmt: skip
    ctx.assumptions = [
        "cost inside C code that is neither a regex nor visible as instructions (bytes.split, bytearray copies, big-integer arithmetic) is not measured; it is polynomial by inspection",
        "only exponential ambiguity (EDA) is reported for regexes; polynomial ambiguity is allowed by the property",
        "a regex feature the translator does not know is listed under unanalysed_patterns and decides nothing",
    ]


def replay(case: t.Dict[str, t.Any], key: t.Optional[str] = None) -> t.Tuple[bool, str]:
    if "regex" in case:
        r = case["regex"]
        w = {"prefix": r["prefix"], "pump": r["pump"]}
        hit = rxnfa.confirm_blowup(r["pattern"], r["flags"], r["method"] if r["method"] in ("match", "fullmatch", "search", "sub") else "search", w)
        return (hit is None), f"pattern {str(r['pattern'])[:80]!r}\n  family {w['prefix']!r} + {w['pump']!r}*k: " + (f"blows up: {hit}" if hit else "no blow-up on the real engine")
    fam = case["fam"]
    if fam == "filter":
        costs = family_costs(lambda k: case["u"] + case["v"] * k + case["w"], run_filter)
    elif fam == "filter2":
        costs = family_costs(lambda k: case["v"] * k + case["m"] + case["w"] * k, run_filter)
    elif fam == "schema":
        costs = family_costs(lambda k: (case["kind"], case["u"] + case["v"] * k + case["w"]), run_schema)
    elif fam == "recv":
        costs = family_costs(lambda k: (bytes.fromhex(case["u"]) + bytes.fromhex(case["v"]) * k + bytes.fromhex(case["w"]), case["bytewise"]), run_receive)
    elif fam == "nest":
        costs = family_costs(lambda k: (c05.nested_search(case["tag"], k, case["form"]), case["bytewise"]), run_receive)
    elif fam == "filter-nest":
        costs = family_costs(lambda k: c15.nest(case["op"], k, case["shape"]), run_filter)
    else:
        req = L.ExtendedRequest(1, [], "1.2", None).pack(c05.K.OPTS)
        costs = family_costs(lambda k: (req * k, fam.endswith("bytewise")), run_receive)
    why = judge(costs)
    return (why is None), f"{case}: instruction counts {[(k, n) for k, n, _ in costs]}" + (f"\n  {why}" if why else "")
