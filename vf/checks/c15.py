"""C15 -- the filter parser is total and only accepts what it can faithfully represent."""
from __future__ import annotations

import itertools
import re
import typing as t

import sansldap as L

from vf import abs as A
from vf.checks import c14
from vf.checks import common as K
from vf.engine import evid, par
from vf.ref import filt

FilterSyntaxError = A.lib("FilterSyntaxError")

ALPHA = list("()&|!=~<>:*\\ a1.;-\n\x00é")
assert len(ALPHA) == 21
_NUM = r"(?:0|[1-9][0-9]*)"
_SINGLE_ARC = re.compile(rf"{_NUM}(;[A-Za-z0-9-]+)*\Z")


def names(x: t.Any) -> t.Iterator[t.Tuple[str, str]]:
    if isinstance(x, (L.FilterAnd, L.FilterOr)):
        for y in x.filters:
            yield from names(y)
    elif isinstance(x, L.FilterNot):
        yield from names(x.filter)
    elif isinstance(x, L.FilterExtensibleMatch):
        if x.attribute is not None:
            yield ("attr", x.attribute)
        if x.rule is not None:
            yield ("rule", x.rule)
    else:
        yield ("attr", x.attribute)


def _name_class(kind: str, a: str) -> str:
    if _SINGLE_ARC.match(a):
        return "single-arc-numericoid"
    if a.endswith("\n"):
        return "trailing-newline"
    if kind == "rule" and ";" in a and filt.is_attr(a):
        return "rule-with-options"
    return "other"


def check_one(s: str) -> t.List[t.Tuple[str, str]]:
    out: t.List[t.Tuple[str, str]] = []
    try:
        r = L.LDAPFilter.from_string(s)
    except FilterSyntaxError as e:
        try:
            bl = len(s.strip().encode("utf-8", errors="surrogateescape"))
        except UnicodeEncodeError:
            bl = len(s.strip())
        off, ln = e.offset, e.length
        if not (isinstance(off, int) and isinstance(ln, int)):
            return [("error-span-not-int", f"{s!r}: offset {off!r}, length {ln!r}")]
        if off < 0 or ln < 0:
            return [(f"error-span-negative:{'length' if ln < 0 else 'offset'}", f"{s!r}: FilterSyntaxError offset {off}, length {ln} ({e})")]
        if off + ln > bl:
            return [("error-span-beyond-input", f"{s!r} ({bl} bytes): FilterSyntaxError offset {off} + length {ln} ({e})")]
        return out
    except BaseException as e:  # noqa: BLE001
        return [(f"raises:{type(e).__name__}", f"from_string({s[:60]!r}{'..' if len(s) > 60 else ''}) raised {type(e).__name__}: {str(e)[:80]}")]
    if not isinstance(r, L.LDAPFilter):
        return [("returns-non-filter", f"{s!r} -> {type(r).__name__}")]
    for kind, a in names(r):
        ok = filt.is_attr(a) if kind == "attr" else filt.is_oid(a)
        if not ok:
            out.append((f"accepted-bad-{kind}:{_name_class(kind, a)}", f"{s!r} accepted with {kind} {a!r}, which is not RFC 4512-valid"))
    try:
        txt = str(r)
        r2 = L.LDAPFilter.from_string(txt)
    except BaseException as e:  # noqa: BLE001
        if not out:
            deep = ":deep-nesting" if isinstance(e, RecursionError) else ""
            out.append((f"own-text-reparse-raises:{type(e).__name__}{deep}", f"{s[:80]!r} accepted, but its own text form does not parse: {type(e).__name__}: {str(e)[:100]}"))
        return out
    same = same_filter(r, r2)
    if not same:
        out.append(("own-text-reparse-differs", f"{s!r} -> {A.src(r)[:120]} -> {txt!r} -> {A.src(r2)[:120]}"))
    return out


def same_filter(a: t.Any, b: t.Any) -> bool:
    """Field-by-field equality of two filter trees with an explicit stack (the generated ``==`` recurses per level and gives
    up on trees nested a few hundred deep, which from_string accepts)."""
    import dataclasses

    todo = [(a, b)]
    while todo:
        x, y = todo.pop()
        if type(x) is not type(y):
            return False
        if dataclasses.is_dataclass(x) and not isinstance(x, type):
            todo += [(getattr(x, f.name), getattr(y, f.name)) for f in dataclasses.fields(x) if f.compare]
        elif isinstance(x, (list, tuple)):
            if len(x) != len(y):
                return False
            todo += list(zip(x, y))
        elif x != y:
            return False
    return True


def edits(s: str) -> t.Iterator[str]:
    for i in range(len(s) + 1):
        for c in ALPHA:
            yield s[:i] + c + s[i:]
    for i in range(len(s)):
        yield s[:i] + s[i + 1 :]
        for c in ALPHA:
            if c != s[i]:
                yield s[:i] + c + s[i + 1 :]


_X: t.Dict[str, t.Any] = {}


def _rec(loc: evid.Local, s: str, gen: t.Any = None) -> None:
    loc.add("states")
    loc.add("transitions")
    for k, w in check_one(s):
        loc.violation(k, w, {"text": s} if (len(s) < 400 or gen is None or "huge" in gen) else {"gen": gen})


def _work(job: t.Tuple[t.Any, ...]) -> evid.Local:
    # a library call that never returns is reported (CallDoesNotReturn), it does not hang the check
    with K.watchdog():
        return _work_cases(job)


def _work_cases(job: t.Tuple[t.Any, ...]) -> evid.Local:
    loc = evid.Local()
    fam = job[0]
    if fam == "all":
        ln, first = job[1], job[2]
        for tup in itertools.product(ALPHA, repeat=ln - len(first)):
            _rec(loc, first + "".join(tup))
    elif fam == "edits":
        for s in _X["sentences"][job[1] : job[2]]:
            for e in edits(s):
                _rec(loc, e)
    elif fam == "edits2":
        for s in _X["short"][job[1] : job[2]]:
            for e in edits(s):
                for e2 in edits(e):
                    _rec(loc, e2)
    elif fam == "nest":
        op, lo, hi, stepn = job[1], job[2], job[3], job[4]
        for k in range(lo, hi, stepn):
            for shape in ("balanced", "unclosed", "overclosed", "spaced"):
                _rec(loc, nest(op, k, shape), {"op": op, "k": k, "shape": shape})
    elif fam == "unicode":
        # one representative of every kind of character a loosened class (\\d, \\w, str.isalnum, strip()) would let through
        reps = ["\u0663", "\uff14", "\u09e9", "\u00aa", "\u00e9", "\u0394", "\u4e2d", "\u00b2", "\u2160", "\u2010", "\u2212", "\uff0d", "\u00a0", "\u2003", "\u3000",
                "\u200b", "\u200d", "\u0301", "\ufe0f", "\u00ad", "\x85", "\x1c", "\x0b", "\x0c", "\uff1d", "\uff1a", "\uff08", "\U0001d7d8", "\U0001d44e"]
        tpls = ["{c}=x", "a{c}=x", "{c}a=x", "1.2{c}=x", "1.{c}=x", "{c}.2=x", "1{c}2.3=x", "a;{c}=x", "a;b{c}=x", "a{c};b=x", "(a:{c}:=x)", "(a:b{c}:=x)", "(:1.2{c}:=x)",
                "(a:1.{c}.3:=x)", "(a{c}:dn:=x)", "(a:dn{c}:=x)", "(a:d{c}n:=x)", "{c}(a=x)", "(a=x){c}", "({c}a=x)", "(&{c}(a=x))", "(!(a=x){c})", "(a=x{c})", "(a=*{c}*)", "(a~{c}=x)", "(a{c}>=x)"]
        tpls += ["(a={c})x", "(a={c}{c})x", "(a={c}))", "a={c})", "(a={c})(b=c)", "(&(a={c})(b=c))x", "(a=\\zz{c})", "(a=b*\\z{c})", "(a={c}*\\5)"]
        for c in reps + ["\u00e9", "\u2603", "\U0001F600"]:
            for tpl in tpls:
                _rec(loc, tpl.format(c=c))
                _rec(loc, tpl.format(c=c + c))
    elif fam == "escapes":
        # values whose decoded octets themselves look like escapes (double unescaping), in every item form
        for v in ["\\5c5c41", "\\5c41", "\\5c5c", "\\5C2a", "\\5c\\5c28", "\\5c5c5c5c", "\\5c2A\\5c"]:
            for tpl in ["(cn={v})", "(cn={v}*)", "(cn=*{v})", "(cn=a*{v}*b)", "(cn={v}*{v})", "(cn~={v})", "(cn:dn:1.2:={v})", "(&(cn={v}*)(o=*{v}*))"]:
                _rec(loc, tpl.format(v=v))
        # a backslash followed by two characters that are NOT both hex digits, in every item form: whatever a lenient hex
        # decoder makes of them (white space skipped, signs, prefixes, digits from other scripts), accepting the text is only
        # allowed if the result's own text form parses back to it
        two = [a + b for a in " \t\n0aF+-_xg" for b in " \t0aF+-_xG\u0660\uff11"]
        for p2 in two:
            if all(ch in "0123456789abcdefABCDEF" for ch in p2):
                continue
            for tpl in ["(cn=\\{p})", "(cn=\\{p}*smith)", "(cn=john*\\{p}*smith)", "(cn=*\\{p})", "(cn~=a\\{p}b)", "(cn:dn:1.2:=\\{p})", "cn=\\{p}*"]:
                _rec(loc, tpl.format(p=p2))
    elif fam == "huge":
        # very long tokens in every position (digit runs beyond the interpreter's int<->str limit, block sizes of 4 KiB / 8 KiB / 64 KiB)
        for n in (300, 4300, 4301, 5000, 70000):
            arc = "9" * n
            for tpl in ("1.{t}=x", "{t}.1=x", "1.2.{t};binary=x", "(cn:1.{t}:=x)", "(1.{t}:dn:=x)", "a{t}=x", "cn;x-{t}=x", "(cn:dn:r{t}:=x)", "0{t}.1=x"):
                _rec(loc, tpl.format(t=arc), {"huge": tpl, "n": n})
        for base in (4096, 8192, 65536):
            for n in range(base - 12, base + 6):
                for esc in ("\\e9", "\\2a", "\\5c"):
                    _rec(loc, "(cn=" + "a" * n + esc + "b)", {"huge": "value", "n": n})
                    _rec(loc, "(cn=" + "a" * n + esc + "*" + "c" * 7 + esc + ")", {"huge": "sub", "n": n})
                _rec(loc, "(cn=" + "a" * n + "\u00e9" + ")", {"huge": "raw", "n": n})
    elif fam == "surrogates":
        for bad in ["\ud800", "\udc80", "\udcff", "\udfff"]:
            for tpl in ["{}=a", "a={}", "({}=a)", "(a={})", "(a:{}:=b)", "(&(a=b)({}=c))", "a=\\{}", "{}"]:
                _rec(loc, tpl.format(bad))
    loc.distinct.add(job[:3])
    return loc


def nest(op: str, k: int, shape: str) -> str:
    if shape == "spaced":
        return f"( {op} " * k + "(a=b)" + " )" * k
    close = k if shape == "balanced" else k - 1 if shape == "unclosed" else k + 1
    return f"({op}" * k + "(a=b)" + ")" * close


def run(ctx: evid.Ctx) -> None:
    thorough = ctx.tier == "thorough"
    maxlen = 6 if thorough else 5
    IT = c14.items(1)
    small = [it for it in IT if len(it) <= 12]
    sentences = [f"({it})" for it in small[:: max(1, len(small) // (400 if thorough else 150))]]
    base = [it for it in small if len(it) <= 8][:12]
    for a, b in itertools.product(base[:6], repeat=2):
        sentences.append(f"(&({a})({b}))")
        sentences.append(f"(|({a})(!({b})))")
    sentences += [f"(!({a}))" for a in base] + ["(&(|(a=b)(!(c=d)))(e=*))", " ( & (a=b) ( c=d ) ) "]
    sentences += filt.RFC4515_EXAMPLES
    _X["sentences"] = sentences
    _X["short"] = ["(a=b)", "(!(a=b))", "(a:dn:1.2:=b)", "(&(a=b)(c=*))", "a=b*c"]
    jobs: t.List[t.Tuple[t.Any, ...]] = []
    for ln in range(0, maxlen + 1):
        if ln <= 2:
            jobs.append(("all", ln, ""))
        else:
            jobs += [("all", ln, a + b) for a in ALPHA for b in ALPHA]
    jobs += [("edits", a, b) for a, b in par.split(len(sentences), 64)]
    if thorough:
        jobs += [("edits2", i, i + 1) for i in range(len(_X["short"]))]
    stepn = 1 if thorough else 7
    for op in "!&|":
        jobs += [("nest", op, 1 + a, 1 + b, 1) for a, b in par.split(400, 8)]
        jobs += [("nest", op, 401 + a, 401 + b, stepn) for a, b in par.split(4600, 16)]
    jobs.append(("surrogates",))
    jobs.append(("unicode",))
    jobs.append(("escapes",))
    jobs.append(("huge",))
    for loc in par.pmap(_work, jobs, ctx.seed):
        evid.absorb(ctx, loc)
    ctx.counters["evaluations"] = ctx.counters.get("states", 0)
    ctx.sample({"text": "(&(("})
    ctx.sample({"text": "a\n=("})
    ctx.sample({"text": nest("!", 3, "unclosed")})
    ctx.sample({"edits_of": sentences[0], "count": sum(1 for _ in edits(sentences[0]))})
    ctx.rule = (
        "one case = one input string given to LDAPFilter.from_string; exhaustive over all strings up to the length bound on "
        "the 21-symbol alphabet, all single-symbol edits of the sentence corpus, all nesting depths in the stated range; "
        "distinct_nontrivial counts the disjoint enumeration partitions"
    )
    ctx.bounds = {"alphabet": ALPHA, "all_strings_up_to": maxlen, "edit_corpus": len(sentences), "double_edits": thorough,
                  "nesting": "k = 1..400 every depth, 401..5000 every %d; ops ! & |; balanced / unclosed / overclosed / spaced" % stepn}  # fmt: skip
    ctx.assumptions = [
        "error offsets are read against the UTF-8 view of the stripped input (the parser's documented frame); for ASCII input this is the character offset",
        "RFC 4512: oid = descr / numericoid with numericoid = number 1*( DOT number ); options are keychars; a matching rule is an oid without options",
    ]


def replay(case: t.Dict[str, t.Any], key: t.Optional[str] = None) -> t.Tuple[bool, str]:
    s = case["text"] if "text" in case else nest(case["gen"]["op"], case["gen"]["k"], case["gen"]["shape"])
    vs = [v for v in check_one(s) if (key is None or v[0] == key) and not v[0].startswith("__")]
    return (not vs), f"{s[:200]!r}" + ("".join(f"\n  {k}: {w}" for k, w in vs) or "\n  total and faithful")
