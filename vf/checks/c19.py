"""C19 -- sessions are isolated; custom types take effect per session only.

Stateless exploration (hidden sharing is by definition not part of a session's state, so nothing
is merged): every pair of histories (h_A, h_B) over per-role alphabets that touch every piece of
per-session state, in EVERY interleaving, on two fresh sessions.  Each session's transcript
(results, exception, state, pending bytes after every call) must equal its transcript when run
alone.  The alone-transcripts come from processes forked off a pristine parent, one per history,
so contamination that survives across executions is caught too (sequential composition is one of
the interleavings).  A second part checks the registration semantics directly over all 8x8
pairs of subsets of {control, filter, credential} registered on the two ends.
"""
from __future__ import annotations

import copy
import dataclasses
import itertools
import multiprocessing as mp
import struct
import typing as t

import sansldap as L
from sansldap import asn1

from vf import abs as A
from vf.checks import common as K
from vf.checks.sess import NOTICE, make_msg
from vf.engine import evid, par


@dataclasses.dataclass(frozen=True)
class XControl(L.LDAPControl):
    control_type: str = dataclasses.field(init=False, repr=False, default="1.2.3.4")
    value: t.Optional[bytes] = dataclasses.field(init=False, repr=False, default=None)
    size: int

    def get_value(self, options: L.ControlOptions) -> t.Optional[bytes]:
        return self.size.to_bytes(4, byteorder="big")

    @classmethod
    def unpack(cls, control_type: str, critical: bool, value: t.Optional[bytes], options: L.ControlOptions) -> "XControl":
        return XControl(critical=critical, size=struct.unpack(">I", (value or b""))[0])


@dataclasses.dataclass(frozen=True)
class YControl(L.LDAPControl):
    """A second application control, so that two sessions can hold the same NUMBER of registrations of different types."""

    control_type: str = dataclasses.field(init=False, repr=False, default="1.2.3.5")
    value: t.Optional[bytes] = dataclasses.field(init=False, repr=False, default=None)
    tag: bytes

    def get_value(self, options: L.ControlOptions) -> t.Optional[bytes]:
        return self.tag

    @classmethod
    def unpack(cls, control_type: str, critical: bool, value: t.Optional[bytes], options: L.ControlOptions) -> "YControl":
        return YControl(critical=critical, tag=value or b"")


@dataclasses.dataclass(frozen=True)
class FFilter(L.LDAPFilter):
    filter_id: int = dataclasses.field(init=False, repr=False, default=1024)
    value: str

    def pack(self, writer: asn1.ASN1Writer, options: L.FilterOptions) -> None:
        writer.write_octet_string(self.value.encode(options.string_encoding), tag=asn1.ASN1Tag(asn1.TagClass.CONTEXT_SPECIFIC, self.filter_id, False))

    @classmethod
    def unpack(cls, reader: asn1.ASN1Reader, options: L.FilterOptions) -> "FFilter":
        v = reader.read_octet_string(asn1.ASN1Tag(asn1.TagClass.CONTEXT_SPECIFIC, cls.filter_id, False)).decode(options.string_encoding)
        return FFilter(value=v)


@dataclasses.dataclass(frozen=True)
class ACred(L.AuthenticationCredential):
    auth_id: int = dataclasses.field(init=False, repr=False, default=1024)
    username: str
    password: str

    def pack(self, writer: asn1.ASN1Writer, options: L.AuthenticationOptions) -> None:
        writer.write_octet_string(f"{self.username}:{self.password}".encode(options.string_encoding), tag=asn1.ASN1Tag(asn1.TagClass.CONTEXT_SPECIFIC, self.auth_id, False))

    @classmethod
    def unpack(cls, reader: asn1.ASN1Reader, options: L.AuthenticationOptions) -> "ACred":
        v = reader.read_octet_string(tag=asn1.ASN1Tag(asn1.TagClass.CONTEXT_SPECIFIC, cls.auth_id, False)).decode(options.string_encoding)
        u, _, p = v.partition(":")
        return ACred(username=u, password=p)


@dataclasses.dataclass(frozen=True)
class ClashFilter(FFilter):
    filter_id: int = dataclasses.field(init=False, repr=False, default=3)  # collides with equalityMatch


@dataclasses.dataclass(frozen=True)
class ClashControl(XControl):
    control_type: str = dataclasses.field(init=False, repr=False, default="1.2.840.113556.1.4.319")  # paged results


@dataclasses.dataclass(frozen=True)
class ClashCred(ACred):
    auth_id: int = dataclasses.field(init=False, repr=False, default=0)  # simple


@dataclasses.dataclass(frozen=True)
class VendorPaged(L.PagedResultControl):
    """An application control derived from a control class the library knows (same value syntax, its own OID)."""

    control_type: str = dataclasses.field(init=False, repr=False, default="1.2.3.99")

    @classmethod
    def unpack(cls, control_type: str, critical: bool, value: t.Optional[bytes], options: L.ControlOptions) -> "VendorPaged":
        base = L.PagedResultControl.unpack(control_type, critical, value, options)
        return VendorPaged(critical=base.critical, size=base.size, cookie=base.cookie)


@dataclasses.dataclass(frozen=True)
class BaseF(L.LDAPFilter):
    """Application base class: the codec lives here, concrete filters only choose their number."""

    filter_id: int = dataclasses.field(init=False, repr=False, default=1030)
    value: str

    def pack(self, writer: asn1.ASN1Writer, options: L.FilterOptions) -> None:
        writer.write_octet_string(self.value.encode(options.string_encoding), tag=asn1.ASN1Tag(asn1.TagClass.CONTEXT_SPECIFIC, self.filter_id, False))

    @classmethod
    def unpack(cls, reader: asn1.ASN1Reader, options: L.FilterOptions) -> "BaseF":
        return cls(value=reader.read_octet_string(asn1.ASN1Tag(asn1.TagClass.CONTEXT_SPECIFIC, cls.filter_id, False)).decode(options.string_encoding))


@dataclasses.dataclass(frozen=True)
class DerivedF(BaseF):
    filter_id: int = dataclasses.field(init=False, repr=False, default=1031)


@dataclasses.dataclass(frozen=True)
class BaseCred(L.AuthenticationCredential):
    auth_id: int = dataclasses.field(init=False, repr=False, default=1030)
    token: str

    def pack(self, writer: asn1.ASN1Writer, options: L.AuthenticationOptions) -> None:
        writer.write_octet_string(self.token.encode(options.string_encoding), tag=asn1.ASN1Tag(asn1.TagClass.CONTEXT_SPECIFIC, self.auth_id, False))

    @classmethod
    def unpack(cls, reader: asn1.ASN1Reader, options: L.AuthenticationOptions) -> "BaseCred":
        return cls(token=reader.read_octet_string(tag=asn1.ASN1Tag(asn1.TagClass.CONTEXT_SPECIFIC, cls.auth_id, False)).decode(options.string_encoding))


@dataclasses.dataclass(frozen=True)
class DerivedCred(BaseCred):
    auth_id: int = dataclasses.field(init=False, repr=False, default=1031)


@dataclasses.dataclass(frozen=True)
class Cred1(BaseCred):
    auth_id: int = dataclasses.field(init=False, repr=False, default=1)  # a choice number RFC 4511 leaves unassigned (LDAPv2 history)


@dataclasses.dataclass(frozen=True)
class Cred2(BaseCred):
    auth_id: int = dataclasses.field(init=False, repr=False, default=2)


OPT = K.OPTS
RES = L.LDAPResult(L.LDAPResultCode.SUCCESS, "", "", None)
REQ_X = L.SearchRequest(1, [XControl(True, 7)], "", L.SearchScope.BASE, L.DereferencingPolicy.NEVER, 0, 0, False, L.FilterPresent("a"), []).pack(OPT)
REQ_F = L.SearchRequest(2, [], "", L.SearchScope.BASE, L.DereferencingPolicy.NEVER, 0, 0, False, L.FilterNot(FFilter("v")), []).pack(OPT)
REQ_A = L.BindRequest(3, [], 3, "", ACred("u", "p")).pack(OPT)
RESP_X = L.SearchResultDone(1, [XControl(False, 9)], RES).pack(OPT)
RESP_CODE = L.ExtendedResponse(1, [], L.LDAPResult(L.LDAPResultCode(4242), "", "", None), None, None).pack(OPT)
# the library-known show-deleted control: once as the library writes it, once as a peer may send it (with a value)
SD = "1.2.840.113556.1.4.417"
REQ_SD = L.SearchRequest(1, [L.ShowDeletedControl(True)], "", L.SearchScope.BASE, L.DereferencingPolicy.NEVER, 0, 0, False, L.FilterPresent("a"), []).pack(OPT)
REQ_SDV = L.SearchRequest(2, [L.LDAPControl(SD, False, b"zz")], "", L.SearchScope.BASE, L.DereferencingPolicy.NEVER, 0, 0, False, L.FilterPresent("a"), []).pack(OPT)
RESP_SD = L.SearchResultEntry(1, [L.ShowDeletedControl(False)], "cn=e", []).pack(OPT)
RESP_SDV = L.SearchResultEntry(1, [L.LDAPControl(SD, True, b"yy")], "cn=f", []).pack(OPT)
REQ_F_OR = L.SearchRequest(4, [], "", L.SearchScope.BASE, L.DereferencingPolicy.NEVER, 0, 0, False, L.FilterOr([L.FilterPresent("a"), L.FilterAnd([FFilter("w")])]), []).pack(OPT)
PDU_REQ = make_msg("ExtReq", 1).pack(OPT)
PDU_RESP = make_msg("ExtResp", 1).pack(OPT)

# one buffer object the application reuses for every read, whichever session the bytes are for
SHARED = {"client": bytearray(), "server": bytearray()}


def _recv_shared(role: str, s: t.Any, part: bytes) -> t.Any:
    buf = SHARED[role]
    try:
        buf[:] = part
    except BufferError:
        # something still holds a view of the application's buffer (typically an exception's traceback kept alive by a
        # reference cycle until the collector runs): that is the application's inconvenience, not a session's result
        import gc

        gc.collect()
        try:
            buf[:] = part
        except BufferError:
            buf = SHARED[role] = bytearray(part)
    r = s.receive(buf)
    if bytes(buf) != part:
        raise AssertionError(f"receive modified the caller's input buffer: {bytes(buf).hex()[:40]}")
    return r


OPS: t.Dict[str, t.Dict[str, t.Callable[[t.Any], t.Any]]] = {
    "client": {
        "bind": lambda c: c.bind_simple("cn=a", "pw"),
        "set_v2": lambda c: setattr(c, "version", 2),  # a public attribute of ONE session
        "search": lambda c: c.search_request(),
        "ext": lambda c: c.extended_request("1.2"),
        "recv_resp1": lambda c: c.receive(PDU_RESP),
        "recv_half": lambda c: c.receive(PDU_RESP[:5]),
        "recv_rest": lambda c: c.receive(PDU_RESP[5:]),
        "recv_half_buf": lambda c: _recv_shared("client", c, PDU_RESP[:5]),
        "recv_rest_buf": lambda c: _recv_shared("client", c, PDU_RESP[5:]),
        "recv_done_X": lambda c: c.receive(RESP_X),
        "recv_code": lambda c: c.receive(RESP_CODE),
        "recv_SD": lambda c: c.receive(RESP_SD),
        "recv_SDv": lambda c: c.receive(RESP_SDV),
        "drain1": lambda c: c.data_to_send(1),
        "drain": lambda c: c.data_to_send(),
        "reg_X": lambda c: c.register_control(XControl),
        "reg_F": lambda c: c.register_filter(FFilter),
        "reg_A": lambda c: c.register_auth_credential(ACred),
        "send_X": lambda c: c.search_request(controls=[XControl(True, 7)]),
        "send_F": lambda c: c.search_request(filter=FFilter("v")),
        "send_A": lambda c: c.bind("", ACred("u", "p")),
        "unbind": lambda c: c.unbind(),
    },
    "server": {
        "recv_bind": lambda s: s.receive(make_msg("BindReq", 1).pack(OPT)),
        "recv_search": lambda s: s.receive(make_msg("SearchReq", 1).pack(OPT)),
        "recv_ext": lambda s: s.receive(PDU_REQ),
        "recv_half": lambda s: s.receive(PDU_REQ[:4]),
        "recv_rest": lambda s: s.receive(PDU_REQ[4:]),
        "recv_half_buf": lambda s: _recv_shared("server", s, PDU_REQ[:4]),
        "recv_rest_buf": lambda s: _recv_shared("server", s, PDU_REQ[4:]),
        "recv_X": lambda s: s.receive(REQ_X),
        "recv_F": lambda s: s.receive(REQ_F),
        "recv_A": lambda s: s.receive(REQ_A),
        "recv_deep": lambda s: s.receive(DEEP_REQ),
        "recv_SD": lambda s: s.receive(REQ_SD),
        "recv_SDv": lambda s: s.receive(REQ_SDV),
        "resp_bind": lambda s: s.bind_response(1),
        "resp_entry": lambda s: s.search_result_entry(1, "cn=e", [L.PartialAttribute("a", [b"v"])]),
        "resp_done_X": lambda s: s.search_result_done(1, controls=[XControl(False, 9)]),
        "resp_ext": lambda s: s.extended_response(1, result_code=L.LDAPResultCode(4242)),
        "notice": lambda s: s.extended_response(1, NOTICE),
        "drain1": lambda s: s.data_to_send(1),
        "reg_X": lambda s: s.register_control(XControl),
        "reg_F": lambda s: s.register_filter(FFilter),
        "reg_A": lambda s: s.register_auth_credential(ACred),
        "unbind": lambda s: s.unbind(),
    },
}


def _obs(v: t.Any) -> t.Any:
    if isinstance(v, list):
        # src() = the value; repr() = what the application sees when it prints / logs it (enum member names included)
        return [(A.src(m), repr(m)[:2000], [_obs(getattr(c, "value", None)) for c in getattr(m, "controls", [])]) for m in v]
    if isinstance(v, (bytes, bytearray)):
        return bytes(v).hex()
    return repr(v)


KEPT: t.Dict[int, t.List[t.Any]] = {}  # id(session) -> messages it has returned so far (the application keeps them)


def do_op(role: str, s: t.Any, op: str) -> t.Any:
    try:
        v = OPS[role][op](s)
        if isinstance(v, list):
            KEPT.setdefault(id(s), []).extend(v)
        r = ("ok", _obs(v))
    except BaseException as e:  # noqa: BLE001
        r = ("exc", type(e).__name__, str(e)[:120], _obs(getattr(e, "response", None)))
    return (op, r, s.state.name)


def final_obs(s: t.Any) -> t.Any:
    """What is still pending at the end of a history (a real, full drain) and the state after it."""
    kept = KEPT.pop(id(s), [])
    # messages returned earlier are looked at again: another session must not have changed them
    return ("final", s.data_to_send().hex(), s.state.name, _obs(kept), A.public_view(s))


def new(role: str) -> t.Any:
    return L.LDAPClient() if role.startswith("client") else L.LDAPServer()


def alone(job: t.Tuple[str, t.Tuple[str, ...]]) -> t.Tuple[t.Any, ...]:
    role, hist = job
    s = new(role)
    return tuple([do_op(role, s, op) for op in hist] + [final_obs(s)])


def interleavings(na: int, nb: int) -> t.Iterator[t.Tuple[int, ...]]:
    for pos in itertools.combinations(range(na + nb), na):
        order = [1] * (na + nb)
        for p in pos:
            order[p] = 0
        yield tuple(order)


_X: t.Dict[str, t.Any] = {}


def _pairs(job: t.Tuple[str, str, int, int]) -> evid.Local:
    loc = evid.Local()
    ra, rb, lo, hi = job
    table = _X["alone"]
    ha_all = _X["hists"][ra]
    hb_all = _X["hists"][rb]
    for ha in ha_all[lo:hi]:
        exp_a = table[(ra, ha)]
        for hb in hb_all:
            exp_b = table[(rb, hb)]
            for order in interleavings(len(ha), len(hb)):
                sa, sb = new(ra), new(rb)
                ta: t.List[t.Any] = []
                tb: t.List[t.Any] = []
                ia = ib = 0
                for who in order:
                    if who == 0:
                        ta.append(do_op(ra, sa, ha[ia]))
                        ia += 1
                    else:
                        tb.append(do_op(rb, sb, hb[ib]))
                        ib += 1
                ta.append(final_obs(sa))
                tb.append(final_obs(sb))
                loc.add("transitions", len(order))
                loc.add("states")
                for which, got, exp, h, other in (("A", ta, exp_a, ha, hb), ("B", tb, exp_b, hb, ha)):
                    if tuple(got) != exp:
                        k = next(i for i, (x, y) in enumerate(zip(got, exp)) if x != y)
                        loc.violation(
                            f"transcript-differs:{ra if which == 'A' else rb}:{(h + ('final',))[k]}:after-other:{'+'.join(sorted(set(other)))}"[:110],
                            f"{ra}/{rb} histories {ha} / {hb}, order {order}: step {k} of session {which} gave {got[k]!r}, alone it gives {exp[k]!r}",
                            {"roles": [ra, rb], "ha": list(ha), "hb": list(hb), "order": list(order)},
                        )
        loc.distinct.add((ra, rb, ha))
    return loc


# ---- registration semantics -----------------------------------------------------------------
TYPES = {"X": XControl, "F": FFilter, "A": ACred}
REGISTER = {"X": "register_control", "F": "register_filter", "A": "register_auth_credential"}


def _register(s: t.Any, subset: t.Sequence[str]) -> None:
    for k in subset:
        getattr(s, REGISTER[k])(TYPES[k])


def config_check(sub_a: t.Tuple[str, ...], sub_b: t.Tuple[str, ...]) -> t.List[t.Tuple[str, str]]:
    out: t.List[t.Tuple[str, str]] = []
    for ty in "XFA":
        a = L.LDAPClient()
        _register(a, sub_a)
        try:
            if ty == "X":
                a.search_request(controls=[XControl(True, 7)])
            elif ty == "F":
                a.search_request(filter=L.FilterNot(FFilter("v")))
            else:
                a.bind("", ACred("u", "p"))
        except BaseException as e:  # noqa: BLE001
            out.append((f"encode-needs-something:{ty}", f"client with {sub_a} could not send custom {ty}: {type(e).__name__}: {e}"))
            continue
        wire = a.data_to_send()
        for label, b in (("B", L.LDAPServer()), ("fresh-third", L.LDAPServer())):
            regs = sub_b if label == "B" else ()
            _register(b, regs)
            try:
                msgs = b.receive(wire)
                err = None
            except L.ProtocolError as e:
                msgs, err = [], e
            except BaseException as e:  # noqa: BLE001
                out.append((f"decode-raises:{type(e).__name__}:{ty}", f"server with {regs} receiving custom {ty}: {type(e).__name__}: {e}"))
                continue
            known = ty in regs
            if ty == "F" and known and not err:
                # the registration must reach filters nested under every composite, not only the top level / NOT
                b2 = L.LDAPServer()
                _register(b2, regs)
                try:
                    got = b2.receive(REQ_F_OR)
                    if got[0].filter != L.FilterOr([L.FilterPresent("a"), L.FilterAnd([FFilter("w")])]):
                        out.append(("registered-type-not-decoded:F:nested", f"server with {regs} decoded {A.src(got[0].filter)}"))
                except BaseException as e:  # noqa: BLE001
                    out.append(("registered-type-not-decoded:F:nested", f"server with {regs}: a registered filter under OR/AND raised {type(e).__name__}: {e}"))
            if ty == "X":
                if err or len(msgs) != 1 or len(msgs[0].controls) != 1:
                    out.append((f"control-message-lost:{'registered' if known else 'unregistered'}", f"server with {regs}: {err or msgs}"))
                    continue
                c = msgs[0].controls[0]
                if known and not (type(c) is XControl and c.size == 7 and c.critical is True):
                    out.append(("registered-control-not-decoded", f"server with {regs} (peer had {sub_a}) decoded {A.src(c)}"))
                if not known and not (type(c) is L.LDAPControl and c.control_type == "1.2.3.4" and c.critical is True and c.value == b"\x00\x00\x00\x07"):
                    out.append((f"unregistered-control-not-generic:{label}", f"server with {regs} (peer had {sub_a}) decoded {A.src(c)}"))
            else:
                if known:
                    ok = not err and len(msgs) == 1 and ((ty == "F" and msgs[0].filter == L.FilterNot(FFilter("v"))) or (ty == "A" and msgs[0].authentication == ACred("u", "p")))
                    if not ok:
                        out.append((f"registered-type-not-decoded:{ty}", f"server with {regs}: {err or [A.src(m) for m in msgs]}"))
                elif not err:
                    out.append((f"unregistered-type-decoded:{ty}:{label}", f"server with {regs} (peer had {sub_a}) decoded custom {ty}: {[A.src(m) for m in msgs]}"))
    # a registration made after the session has already decoded traffic takes effect from then on
    for ty in sub_b:
        b = L.LDAPServer()
        b.receive(make_msg("SearchReq", 7).pack(OPT))
        b.receive(REQ_SD)
        _register(b, (ty,))
        wire = {"X": REQ_X, "F": REQ_F, "A": REQ_A}[ty]
        if ty == "A":
            b.search_result_done(7)
            b.search_result_done(1)
            b.data_to_send()
        try:
            msgs = b.receive(wire)
        except BaseException as e:  # noqa: BLE001
            out.append((f"late-registration-ignored:{ty}", f"server registered {ty} after earlier traffic, then receiving it raised {type(e).__name__}: {e}"))
            continue
        m = msgs[0]
        ok = (ty == "X" and type(m.controls[0]) is XControl) or (ty == "F" and m.filter == L.FilterNot(FFilter("v"))) or (ty == "A" and m.authentication == ACred("u", "p"))
        if not ok:
            out.append((f"late-registration-ignored:{ty}", f"server registered {ty} after earlier traffic but decoded {A.src(m)[:160]}"))
        c = L.LDAPClient()
        c.search_request()
        c.receive(RESP_SD)
        if ty == "X":
            c.register_control(XControl)
            try:
                got = c.receive(RESP_X)
                if type(got[0].controls[0]) is not XControl:
                    out.append(("late-registration-ignored:X:client", f"client decoded {A.src(got[0].controls[0])}"))
            except BaseException as e:  # noqa: BLE001
                out.append(("late-registration-ignored:X:client", f"{type(e).__name__}: {e}"))
    # duplicate / colliding registrations are refused and change nothing
    s = L.LDAPServer()
    _register(s, sub_b)
    for k in "XFA":
        for cls, why in ((TYPES[k], "duplicate"), ({"X": ClashControl, "F": ClashFilter, "A": ClashCred}[k], "collides-with-built-in")):
            if why == "duplicate" and k not in sub_b:
                continue
            before = A.freeze(s)
            try:
                getattr(s, REGISTER[k])(cls)
            except ValueError:
                if A.freeze(s) != before:
                    # structurally different: it counts if the session now decodes anything differently from one
                    # that never saw the refused registration
                    ref = L.LDAPServer()
                    _register(ref, sub_b)
                    for wire in (REQ_X, REQ_F, REQ_A, REQ_F_OR, REQ_SD):
                        got = []
                        for x in (copy.deepcopy(s), copy.deepcopy(ref)):
                            try:
                                got.append([repr(m) for m in x.receive(wire)])
                            except BaseException as e:  # noqa: BLE001
                                got.append(type(e).__name__)
                        if got[0] != got[1]:
                            out.append((f"refused-registration-changed-session:{k}:{why}", f"after a refused registration the session decodes {wire.hex()[:40]} as {str(got[0])[:120]}, a session without it: {str(got[1])[:120]}"))
                            break
            except BaseException as e:  # noqa: BLE001
                out.append((f"registration-raises:{type(e).__name__}:{k}:{why}", str(e)))
            else:
                out.append((f"registration-accepted:{k}:{why}", f"{why} registration of {cls.__name__} was accepted"))
    return out


def derived_types_check() -> t.List[t.Tuple[str, str]]:
    """Application types built the way applications build them: a control derived from a library-known control class, a
    filter / credential whose codec is inherited from an application base class; and sessions that register types of two
    different kinds, in either order.  Each type takes effect in exactly the session that registered it; a session created
    afterwards starts from the library's defaults (it does not decode the type and may register it itself)."""
    out: t.List[t.Tuple[str, str]] = []
    SR = lambda ctrls, flt: L.SearchRequest(1, ctrls, "", L.SearchScope.BASE, L.DereferencingPolicy.NEVER, 0, 0, False, flt, [])  # noqa: E731
    samples = {
        "VendorPaged": ("register_control", VendorPaged, SR([VendorPaged(True, 5, b"ck")], L.FilterPresent("a")).pack(OPT), lambda m: m.controls[0]),
        "DerivedF": ("register_filter", DerivedF, SR([], L.FilterAnd([DerivedF("v"), L.FilterPresent("a")])).pack(OPT), lambda m: m.filter.filters[0]),
        "DerivedCred": ("register_auth_credential", DerivedCred, L.BindRequest(1, [], 3, "", DerivedCred("tok")).pack(OPT), lambda m: m.authentication),
        "Cred1": ("register_auth_credential", Cred1, L.BindRequest(1, [], 3, "", Cred1("t1")).pack(OPT), lambda m: m.authentication),
        "Cred2": ("register_auth_credential", Cred2, L.BindRequest(1, [], 3, "", Cred2("t2")).pack(OPT), lambda m: m.authentication),
        "XControl": ("register_control", XControl, REQ_X, lambda m: m.controls[0]),
        "FFilter": ("register_filter", FFilter, REQ_F, lambda m: m.filter.filter),
        "ACred": ("register_auth_credential", ACred, REQ_A, lambda m: m.authentication),
    }

    def decodes_as(s: t.Any, name: str) -> t.Optional[bool]:
        _meth, cls, wire, pick = samples[name]
        try:
            got = pick(copy.deepcopy(s).receive(wire)[0])
        except L.ProtocolError:
            return False  # an unknown filter / credential choice cannot be represented: refused
        except BaseException:  # noqa: BLE001
            return None
        return type(got) is cls

    def reg(s: t.Any, name: str, where: str) -> bool:
        try:
            getattr(s, samples[name][0])(samples[name][1])
            return True
        except ValueError as e:
            out.append((f"fresh-registration-refused:{name}", f"{where}: registering {name} was refused: {e}"))
            return False

    names = list(samples)
    for first in names:
        for second in [None] + [n for n in names if n != first]:
            mk = L.LDAPServer
            before = mk()
            a = mk()
            label = f"a session that registered {first}" + (f" then {second}" if second else "")
            if not reg(a, first, "a fresh session") or (second and not reg(a, second, label)):
                continue
            after = mk()
            for n in names:
                mine = n in (first, second)
                got = decodes_as(a, n)
                if got is None or got != mine:
                    out.append((f"{'registered-type-not-decoded' if mine else 'unregistered-type-decoded'}:{n}:own-session", f"{label} decodes {n}: {got}"))
                for other, when in ((before, "created before"), (after, "created after")):
                    if decodes_as(other, n) is not False:
                        out.append((f"unregistered-type-decoded:{n}:{when.replace(' ', '-')}", f"a session {when} {label} decodes {n} although it never registered it"))
            # the later session is as good as new: it can register the same types itself, and then decodes them
            for n in (first, second):
                if n and reg(after, n, f"a session created after {label}") and decodes_as(after, n) is not True:
                    out.append((f"registered-type-not-decoded:{n}:later-session", f"a session created after {label} registered {n} itself but does not decode it"))
    return out


def _registration_refused(e: BaseException) -> bool:
    tb = e.__traceback__
    while tb is not None:
        if tb.tb_frame.f_code.co_name.startswith("register_"):
            return True
        tb = tb.tb_next
    return False


def _guarded(label: str, fn: t.Callable[[], t.List[t.Tuple[str, str]]]) -> t.List[t.Tuple[str, str]]:
    """The sub-checks register application types on sessions they have just created; a library that refuses that has
    leaked a registration from an earlier session -- a finding, not a reason for the check to stop."""
    try:
        return fn()
    except ValueError as e:
        if not _registration_refused(e):
            raise
        return [(f"fresh-registration-refused:{label}", f"during {label}: a registration on a newly created session was refused: {e}")]


def generations_check(rounds: int = 120) -> t.List[t.Tuple[str, str]]:
    """Sessions come and go: a new session must not inherit anything from one that was dropped -- in particular
    not when it lands on the same address with the same number of registrations of a different type."""
    out: t.List[t.Tuple[str, str]] = []
    wire_x = L.SearchRequest(1, [XControl(True, 7)], "", L.SearchScope.BASE, L.DereferencingPolicy.NEVER, 0, 0, False, L.FilterPresent("a"), []).pack(OPT)
    wire_y = L.SearchRequest(2, [YControl(False, b"yy")], "", L.SearchScope.BASE, L.DereferencingPolicy.NEVER, 0, 0, False, L.FilterPresent("a"), []).pack(OPT)
    for n in range(rounds):
        # which type a session registers follows an aperiodic bit sequence, so that whatever the period with which
        # the allocator hands out the same addresses again, neighbours at the same address differ
        bit = ((n * 2654435761) >> 7) & 1
        mine, other, wm, wo = (XControl, YControl, wire_x, wire_y) if bit == 0 else (YControl, XControl, wire_y, wire_x)
        s = L.LDAPServer()
        if n % 7 != 6:
            s.register_control(mine)
        try:
            a = s.receive(wm)[0].controls[0]
            b = s.receive(wo)[0].controls[0]
        except BaseException as e:  # noqa: BLE001
            out.append((f"generation-decode-raises:{type(e).__name__}", f"session #{n}: {e}"))
            del s
            continue
        want_a = mine if n % 7 != 6 else L.LDAPControl
        if type(a) is not want_a or type(b) is not L.LDAPControl:
            out.append(("new-session-inherits-dropped-session", f"session #{n} registered {[mine.__name__] if n % 7 != 6 else []} but decoded its control as {type(a).__name__} and the other as {type(b).__name__}"))
        del s, a, b
    return out


def _nested_filter(depth: int, leaf: t.Any) -> t.Any:
    f = leaf
    for i in range(depth):
        f = L.FilterNot(f) if i % 2 else L.FilterAnd([f])
    return f


def noisy_neighbours() -> t.List[t.Tuple[str, t.Callable[[], None]]]:
    """Other sessions doing a LOT, or failing in unusual ways, before / while the observed sessions run."""
    res = lambda code: L.LDAPResult(L.LDAPResultCode(code), "", "", None)  # noqa: E731

    def many_unknown_codes() -> None:
        c = L.LDAPClient()
        for k in range(320):
            i = c.extended_request("1.2")
            c.data_to_send()
            c.receive(L.ExtendedResponse(i, [], res(5000 + 3 * k), None, None).pack(OPT))

    def failing_deep_filters() -> None:
        bad = L.SearchRequest(1, [], "", L.SearchScope.BASE, L.DereferencingPolicy.NEVER, 0, 0, False, _nested_filter(50, FFilter("zz")), []).pack(OPT)
        for _ in range(6):
            s = L.LDAPServer()  # FFilter not registered: decoding fails 50 levels down
            try:
                s.receive(bad)
            except L.ProtocolError:
                pass

    def many_sessions_many_types() -> None:
        for k in range(40):
            s = L.LDAPServer()
            for cls in ((XControl, FFilter, ACred), (YControl,), (FFilter,))[k % 3]:
                getattr(s, {"XControl": "register_control", "YControl": "register_control", "FFilter": "register_filter", "ACred": "register_auth_credential"}[cls.__name__])(cls)
            for wire in (REQ_X, REQ_F_OR, REQ_SD):
                try:
                    s.receive(wire)
                except L.ProtocolError:
                    break

    def long_lived_busy_session() -> None:
        c, s = L.LDAPClient(), L.LDAPServer()
        for k in range(150):
            i = c.search_request(filter=L.FilterEquality("uid", b"u%d" % k), attributes=["a%d" % k])
            s.receive(c.data_to_send())
            s.search_result_entry(i, "cn=%d" % k, [L.PartialAttribute("attr%d" % k, [b"v"])])
            s.search_result_done(i, L.LDAPResultCode(4300 + k))
            c.receive(s.data_to_send())

    return [("320-unknown-result-codes", many_unknown_codes), ("deep-filter-failures", failing_deep_filters),
            ("40-sessions-different-registrations", many_sessions_many_types), ("150-searches-on-one-connection", long_lived_busy_session)]


DEEP_REQ = L.SearchRequest(7, [], "", L.SearchScope.BASE, L.DereferencingPolicy.NEVER, 0, 0, False, _nested_filter(40, L.FilterPresent("a")), []).pack(OPT)
VICTIMS: t.Dict[str, t.List[t.Tuple[str, ...]]] = {
    "client": [("search", "recv_done_X"), ("ext", "recv_resp1"), ("bind", "recv_code"), ("search", "recv_SD"), ("ext", "recv_half", "recv_rest")],
    "server": [("recv_search", "resp_entry"), ("recv_X", "resp_done_X"), ("recv_deep", "recv_deep"), ("recv_bind", "resp_bind"), ("recv_SDv", "recv_half", "recv_rest"), ("recv_ext", "resp_ext")],
}


def neighbours_check(alone_table: t.Dict[t.Any, t.Any]) -> t.List[t.Tuple[str, str]]:
    out: t.List[t.Tuple[str, str]] = []
    for name, noise in noisy_neighbours():
        try:
            noise()
        except ValueError as e:
            # the neighbours are fresh sessions doing ordinary things (registering a type, receiving): one of them being
            # refused means it met something an earlier session left behind
            out.append((f"neighbour-refused:{name}", f"while other sessions did '{name}': {type(e).__name__}: {e}"))
        for role, hs in VICTIMS.items():
            for h in hs:
                got = alone((role, h))
                if got != alone_table[(role, h)]:
                    k = next((i for i, (x, y) in enumerate(zip(got, alone_table[(role, h)])) if x != y), 0)
                    out.append((f"neighbour-changed-session:{name}:{role}:{(h + ('final',))[k]}", f"after other sessions did '{name}', a fresh {role} running {h} gives {got[k]!r} at step {k}; in a pristine process it gives {alone_table[(role, h)][k]!r}"))
    # two sessions each receiving a 70 000-octet message in pieces, round-robin
    for ra, rb in (("client", "server"), ("server", "server"), ("client", "client")):
        def big(role: str, tag: bytes) -> t.Tuple[t.Any, bytes]:
            if role == "client":
                c = L.LDAPClient()
                c.search_request()
                c.data_to_send()
                return c, L.SearchResultEntry(1, [], "cn=big", [L.PartialAttribute("jpegPhoto", [tag * 70000])]).pack(OPT)
            return L.LDAPServer(), L.ExtendedRequest(1, [], "1.2", tag * 90000).pack(OPT)

        (sa, wa), (sb, wb) = big(ra, b"A"), big(rb, b"B")
        got_a: t.List[t.Any] = []
        got_b: t.List[t.Any] = []
        try:
            for p in range(0, max(len(wa), len(wb)), 16384):
                if p < len(wa):
                    got_a += sa.receive(wa[p : p + 16384])
                if p < len(wb):
                    got_b += sb.receive(wb[p : p + 16384])
            ok = len(got_a) == 1 and len(got_b) == 1 and got_a[0].pack(OPT) == wa and got_b[0].pack(OPT) == wb
            why = f"{len(got_a)} / {len(got_b)} messages returned"
        except BaseException as e:  # noqa: BLE001
            ok, why = False, f"{type(e).__name__}: {e}"
        if not ok:
            out.append((f"large-messages-in-pieces-interfere:{ra}/{rb}", f"two sessions receiving 70 000 / 90 000-octet messages in 16 KiB pieces, round-robin: {why}"))
    return out


def _configs(job: t.Tuple[int, int]) -> evid.Local:
    loc = evid.Local()
    subsets = _X["subsets"]
    for i in range(job[0], job[1]):
        sa, sb = subsets[i // len(subsets)], subsets[i % len(subsets)]
        loc.add("states")
        loc.add("transitions", 12)
        loc.distinct.add(("config", sa, sb))
        for k, w in _guarded("configurations", lambda: config_check(sa, sb)):
            loc.violation(k, w, {"config": [list(sa), list(sb)]})
    return loc


def histories(role: str, maxlen: int, ops: t.Optional[t.List[str]] = None) -> t.List[t.Tuple[str, ...]]:
    names = ops or list(OPS[role])
    out: t.List[t.Tuple[str, ...]] = []
    for n in range(1, maxlen + 1):
        out += list(itertools.product(names, repeat=n))
    return out


FOCUS = {
    "client": [["reg_X", "recv_done_X", "search", "send_X", "recv_SD", "recv_SDv"], ["reg_F", "send_F", "reg_A", "send_A", "bind", "set_v2"], ["recv_half", "recv_rest", "recv_half_buf", "recv_rest_buf", "recv_resp1", "unbind"]],
    "server": [["reg_X", "recv_X", "recv_search", "resp_done_X", "recv_SD", "recv_SDv"], ["reg_F", "recv_F", "reg_A", "recv_A", "recv_bind", "resp_bind"], ["recv_half", "recv_rest", "recv_half_buf", "recv_rest_buf", "resp_ext", "unbind"]],
}


def run(ctx: evid.Ctx) -> None:
    thorough = ctx.tier == "thorough"
    base = {r: histories(r, 2) for r in OPS}
    groups = {r: [histories(r, 3, grp) for grp in FOCUS[r]] for r in OPS} if thorough else {r: [] for r in OPS}
    # alone transcripts: each from its own fork of this (so far pristine) process
    need = {(r, h) for r in OPS for h in base[r]} | {(r, h) for r in OPS for g in groups[r] for h in g} | {(r, h) for r, hs in VICTIMS.items() for h in hs}
    jobs_alone = sorted(need)
    with mp.get_context("fork").Pool(par.ncpu(), maxtasksperchild=1) as pool:
        res = pool.map(alone, jobs_alone, chunksize=1)
    _X["alone"] = dict(zip(jobs_alone, res))
    ctx.add("traces_validated_against_impl", len(jobs_alone))
    ctx.note("alone_transcripts", len(jobs_alone))
    role_pairs = (("client", "client"), ("client", "server"), ("server", "server"))
    if thorough:
        _X["hists"] = base
        jobs = [(ra, rb, a, b) for ra, rb in role_pairs for a, b in par.split(len(base[ra]), 48)]
        for loc in par.pmap(_pairs, jobs, ctx.seed):
            evid.absorb(ctx, loc)
    else:
        # quick: every (<=2) x (<=1) and (<=1) x (<=2) pair over the full alphabets, and every (<=2) x (<=2)
        # pair within each focus group (operations that touch the same piece of per-session state)
        ones = {r: [h for h in base[r] if len(h) == 1] for r in OPS}
        for ha_set, hb_set in ((base, ones), (ones, base)):
            for ra, rb in role_pairs:
                _X["hists"] = {ra: ha_set[ra], rb: hb_set[rb]} if ra != rb else None
                if ra == rb:
                    # _pairs indexes one list per role: run same-role pairs through aliases
                    _X["hists"] = {ra: ha_set[ra], ra + "#b": hb_set[ra]}
                    OPS[ra + "#b"] = OPS[ra]
                    jobs = [(ra, ra + "#b", a, b) for a, b in par.split(len(ha_set[ra]), 32)]
                    _X["alone"].update({(ra + "#b", h): _X["alone"][(ra, h)] for h in hb_set[ra]})
                else:
                    jobs = [(ra, rb, a, b) for a, b in par.split(len(ha_set[ra]), 32)]
                for loc in par.pmap(_pairs, jobs, ctx.seed):
                    evid.absorb(ctx, loc)
        # length-3 histories over the reassembly operations x (<=2): a buffer handed from one session to another
        reasm = {"client": ["recv_half", "recv_rest", "ext", "recv_resp1"], "server": ["recv_half", "recv_rest", "recv_ext", "recv_search"]}
        h3 = {r: [h for h in histories(r, 3, reasm[r]) if len(h) == 3] for r in reasm}
        h2 = {r: histories(r, 2, reasm[r]) for r in reasm}
        miss = [(r, h) for r in reasm for h in h3[r] + h2[r] if (r, h) not in _X["alone"]]
        with mp.get_context("fork").Pool(par.ncpu(), maxtasksperchild=1) as pool:
            _X["alone"].update(dict(zip(miss, pool.map(alone, miss, chunksize=1))))
        for ra, rb in role_pairs:
            if ra == rb:
                _X["hists"] = {ra: h3[ra], ra + "#b": h2[ra]}
                _X["alone"].update({(ra + "#b", h): _X["alone"][(ra, h)] for h in h2[ra]})
                jobs = [(ra, ra + "#b", a, b) for a, b in par.split(len(h3[ra]), 16)]
            else:
                _X["hists"] = {ra: h3[ra], rb: h2[rb]}
                jobs = [(ra, rb, a, b) for a, b in par.split(len(h3[ra]), 16)]
            for loc in par.pmap(_pairs, jobs, ctx.seed):
                evid.absorb(ctx, loc)
        for gi in range(3):
            grp = {r: histories(r, 2, FOCUS[r][gi]) for r in OPS if "#" not in r}
            _X["hists"] = grp
            jobs = [(ra, rb, a, b) for ra, rb in role_pairs for a, b in par.split(len(grp[ra]), 16)]
            for loc in par.pmap(_pairs, jobs, ctx.seed):
                evid.absorb(ctx, loc)
    if thorough:
        for gi in range(3):
            _X["hists"] = {r: groups[r][gi] for r in OPS}
            jobs = [(ra, rb, a, b) for ra, rb in role_pairs for a, b in par.split(len(groups[ra][gi]), 48)]
            for loc in par.pmap(_pairs, jobs, ctx.seed):
                evid.absorb(ctx, loc)
    # alone transcripts again, now in this (used) process: contamination that survives executions
    for (r, h), exp in list(_X["alone"].items())[:: max(1, len(_X["alone"]) // 400)]:
        if alone((r, h)) != exp:
            ctx.violation(f"alone-transcript-changed:{r}:{h[-1]}", f"{r} history {h} no longer behaves as in a pristine process", {"roles": [r, r], "ha": list(h), "hb": [], "order": [0] * len(h)})
    for k, w in _guarded("neighbours", lambda: neighbours_check(_X["alone"])):
        ctx.violation(k, w, {"neighbours": True})
    ctx.add("states", 4 * sum(len(v) for v in VICTIMS.values()) + 3)
    ctx.add("transitions", 2000)
    for k, w in _guarded("derived-types", derived_types_check):
        ctx.violation(k, w, {"derived": True})
    ctx.add("states", 36)
    ctx.add("transitions", 36 * 30)
    for k, w in _guarded("generations", generations_check):
        ctx.violation(k, w, {"generations": True})
    ctx.add("states", 120)
    ctx.add("transitions", 360)
    subsets = [tuple(c) for n in range(4) for c in itertools.combinations("XFA", n)]
    _X["subsets"] = subsets
    for loc in par.pmap(_configs, par.split(len(subsets) ** 2, 16), ctx.seed):
        evid.absorb(ctx, loc)
    ctx.counters["evaluations"] = ctx.counters.get("states", 0)
    ctx.sample({"roles": ["client", "server"], "ha": ["reg_X", "recv_done_X"], "hb": ["recv_X", "reg_X"], "order": [0, 1, 0, 1]})
    ctx.sample({"config": [["X", "F"], ["A"]], "expect": "B decodes the custom control as a generic LDAPControl and refuses the custom filter"})
    ctx.rule = (
        "one case = one interleaving of two histories on two fresh sessions (no state merging); transcripts compared with the "
        "per-history transcripts obtained in pristine forked processes; plus 8x8 registration configurations x 3 custom types; "
        "distinct_nontrivial counts distinct (role pair, history of A) groups and configurations"
    )
    ctx.bounds = {"history_len": 2, "quick": "(<=2)x(<=1), (<=1)x(<=2) over the full alphabets + (<=2)x(<=2) within focus groups", "thorough": "(<=2)x(<=2) over the full alphabets + (<=3)x(<=3) within focus groups", "thorough_len3_within_focus_groups": thorough, "alphabet": {r: list(OPS[r]) for r in OPS}, "role_pairs": ["client/client", "client/server", "server/server"], "configs": len(subsets) ** 2}
    ctx.assumptions = ["the two sessions are not connected to each other; only hidden sharing inside the library can couple them"]


def replay(case: t.Dict[str, t.Any], key: t.Optional[str] = None) -> t.Tuple[bool, str]:
    if case.get("neighbours"):
        jobs = [(r, h) for r, hs in VICTIMS.items() for h in hs]
        with mp.get_context("fork").Pool(4, maxtasksperchild=1) as pool:
            table = dict(zip(jobs, pool.map(alone, jobs, chunksize=1)))
        vs = [v for v in neighbours_check(table) if key is None or v[0] == key]
        return (not vs), "sessions observed after / next to busy or failing neighbours" + "".join(f"\n  {k}: {w}" for k, w in vs[:5])
    if case.get("generations"):
        vs = [v for v in (derived_types_check() if case.get("derived") else generations_check()) if key is None or v[0] == key]
        return (not vs), "sessions created and dropped in sequence" + "".join(f"\n  {k}: {w}" for k, w in vs[:5])
    if "config" in case:
        vs = config_check(tuple(case["config"][0]), tuple(case["config"][1]))
        vs = [v for v in vs if key is None or v[0] == key]
        return (not vs), f"config {case['config']}" + "".join(f"\n  {k}: {w}" for k, w in vs)
    ra, rb = case["roles"]
    ha, hb = tuple(case["ha"]), tuple(case["hb"])
    with mp.get_context("fork").Pool(1, maxtasksperchild=1) as pool:
        exp_a, exp_b = pool.map(alone, [(ra, ha), (rb, hb)], chunksize=1)
    sa, sb = new(ra), new(rb)
    ta, tb = [], []
    ia = ib = 0
    for who in case["order"]:
        if who == 0:
            ta.append(do_op(ra, sa, ha[ia]))
            ia += 1
        else:
            tb.append(do_op(rb, sb, hb[ib]))
            ib += 1
    ta.append(final_obs(sa))
    tb.append(final_obs(sb))
    ok = tuple(ta) == exp_a and tuple(tb) == exp_b
    lines = [f"A({ra}) {ha}: {'same as alone' if tuple(ta) == exp_a else 'DIFFERS from alone'}", f"B({rb}) {hb}: {'same as alone' if tuple(tb) == exp_b else 'DIFFERS from alone'}"]
    for got, exp in ((ta, exp_a), (tb, exp_b)):
        for x, y in zip(got, exp):
            if x != y:
                lines.append(f"   interleaved: {x!r}\n   alone:       {y!r}")
    return ok, "\n".join(lines)
