"""C16 -- schema definitions survive conversion to text and back."""
from __future__ import annotations

import itertools
import typing as t

import sansldap.schema as S

from vf import abs as A
from vf import universe as U
from vf.checks import common as K
from vf.engine import evid, par

CHARS = list("'\\|()$ X-275cCé\n")
assert len(CHARS) == 16
BOOL = [False, True]


def texts() -> t.List[str]:
    out = ["a"]
    out += CHARS
    out += ["".join(p) for p in itertools.product(CHARS, repeat=2)]
    out += ["a" * 300, "\U0001F600", "it's 100% \\ (ok) $", "\\27", "\\5c"]
    # white space and separators beyond Latin-1, text a Unicode normalisation would rewrite, C1 controls
    out += ["\u3000", "a\u2028b", "\u202f", "\u2000x", "\u2029", "\u0085", "\u00a0", "\u1680", "\ufeff", "e\u0301", "\u212b", "\ufb01", "\uff11", "\u0130", "\x7f", "\x1f\x00"]
    return out


def ext_domain(tx: t.List[str]) -> t.List[t.Dict[str, t.List[str]]]:
    out: t.List[t.Dict[str, t.List[str]]] = [{}]
    out += [{"A": [x]} for x in tx]
    out += [{"A": [tx[0], tx[1]]}, {"ORIGIN": [tx[1]], "a-b_c": [tx[2], tx[0]]}, {"A": []}, {"a-b_c": [tx[3], tx[3], tx[4]]}, {"ORIGIN": ["RFC 4512"], "A": []}]
    out += [{"ORIGIN": ["x", x]} for x in tx[:40]]
    out.append({"K" + "abcdefghijklmnopqrstuvwxyz"[i] + "-_" : ["v%d" % i] for i in range(12)})  # many extensions
    out.append({"MANY": ["v%d" % i for i in range(40)] + [tx[1], tx[2]], "Z": [tx[3]]})  # many values
    out.append({"HUGE": ["v%d" % i for i in range(1500)]})  # more values than the interpreter's recursion limit
    out.append({"A": ["x"], "a": ["y"]})  # names differing only in case are different extensions
    # names that themselves begin with the prefix the writer adds (the key is what follows the first "X-")
    out += [{"X-RAY": ["v"]}, {"x-flag": ["v"]}, {"X-ORIGIN": ["a"], "ORIGIN": ["b"]}, {"X-": ["v"]}, {"X-X-A": ["v"], "X-A": ["w"], "A": ["x"]}]
    return out


OIDS = ["1.2", "0.9.2342", "2.16.840.1.113730", "1.3.6.1.4.1." + ".".join(str(7 * i) for i in range(40))]
# (case variants of one name: a case-folding cache or set would show here; very long lists: recursion limits)
NAMES = U.LIST(["cn", "a-1", "X"]) + [["n%d" % i for i in range(30)], ["a" * 200], ["CN"], ["cn", "CN", "Cn"], ["x"], ["n%d" % i for i in range(1500)]]
OIDLIST = U.LIST(["top", "2.5.6.0", "a-b"]) + [["o%d" % i if i % 2 else "2.5.4.%d" % i for i in range(40)], ["TOP"], ["top", "Top"], ["A-B"],
                                               ["o%d" % i for i in range(1500)]]
OID1 = [None, "name", "2.5.4.41", "a-b", "NAME", "Name"]
SYNTAX = [(None, None), ("1.3.6.1", None), ("1.3.6.1", 0), ("1.3.6.1", 1), ("1.3.6.1", 64), ("1.3.6.1", 32768), ("1.2", None), ("0.9.2342.19200300", 7),
          ("1.3.6.1", 2**31 - 1), ("1.3.6.1", 2**31), ("1.3.6.1", 2**32), ("1.3.6.1", 2**63), ("1.3.6.1", 10**30)]


def kinds() -> t.List[U.Kind]:
    tx = texts()
    desc = [None] + tx
    ext = ext_domain(tx)
    ext_x = ext[:1] + ext[1:8] + ext[-9:-1:2] + [{"A": [x]} for x in ("|", "a|b", "'", "\\", "é", "\n")]
    desc_x = desc[:12] + ["a|b", "||", "\\'", "x\ny"]
    F = U.Field
    head = lambda: [F("oid", OIDS), F("names", NAMES), F("description", desc, desc_x), F("obsolete", BOOL)]  # noqa: E731
    return [
        U.Kind(
            "ObjectClassDescription",
            head() + [F("super_types", OIDLIST), F("kind", list(S.ObjectClassKind)), F("must", OIDLIST), F("may", OIDLIST), F("extensions", ext, ext_x)],
            lambda v: S.ObjectClassDescription(v["oid"], v["names"], v["description"], v["obsolete"], v["super_types"], v["kind"], v["must"], v["may"], v["extensions"]),
        ),
        U.Kind(
            "AttributeTypeDescription",
            head()
            + [F("super_type", OID1), F("equality", OID1), F("ordering", OID1), F("substrings", OID1), F("syntax", SYNTAX), F("single_value", BOOL),
               F("collective", BOOL), F("no_user_modification", BOOL), F("usage", list(S.AttributeTypeUsage)), F("extensions", ext, ext_x)],  # fmt: skip
            lambda v: S.AttributeTypeDescription(
                v["oid"], v["names"], v["description"], v["obsolete"], v["super_type"], v["equality"], v["ordering"], v["substrings"],
                v["syntax"][0], v["syntax"][1], v["single_value"], v["collective"], v["no_user_modification"], v["usage"], v["extensions"],
            ),
        ),
        U.Kind(
            "DITContentRuleDescription",
            head() + [F("aux", OIDLIST), F("must", OIDLIST), F("may", OIDLIST), F("never", OIDLIST), F("extensions", ext, ext_x)],
            lambda v: S.DITContentRuleDescription(v["oid"], v["names"], v["description"], v["obsolete"], v["aux"], v["must"], v["may"], v["never"], v["extensions"]),
        ),
    ]


def check_one(d: t.Any) -> t.Optional[t.Tuple[str, str]]:
    try:
        s = str(d)
    except BaseException as e:  # noqa: BLE001
        return (f"str-raises:{K.exc_key(e)}", f"str() raised {type(e).__name__}: {e}")
    try:
        r = type(d).from_string(s)
    except BaseException as e:  # noqa: BLE001
        cause = "pipe" if "\\7c" in s else "other"
        return (f"reparse-raises:{type(e).__name__}:{cause}", f"text form {s[:160]!r} does not parse: {type(e).__name__}: {e}")
    if r != d:
        import dataclasses

        diff = [f.name for f in dataclasses.fields(d) if getattr(r, f.name) != getattr(d, f.name)]
        return (f"reparse-differs:{type(d).__name__}:{'+'.join(diff)}", f"text form {s[:160]!r} parses back with different {diff}")
    # the parsed object belongs to the caller: after the caller has changed every list / dict in it, parsing the same text
    # again still gives the original definition
    import dataclasses

    touched = False
    for f in dataclasses.fields(r):
        v = getattr(r, f.name)
        if isinstance(v, list):
            v.append("caller-added")
            touched = True
        elif isinstance(v, dict):
            for lst in v.values():
                if isinstance(lst, list):
                    lst.append("caller-added")
            v["CALLER"] = ["added"]
            touched = True
    if touched:
        try:
            r3 = type(d).from_string(s)
        except BaseException as e:  # noqa: BLE001
            return (f"reparse-after-caller-change-raises:{type(e).__name__}", f"{s[:160]!r}: {e}")
        if r3 != d:
            diff = [f.name for f in dataclasses.fields(d) if getattr(r3, f.name) != getattr(d, f.name)]
            return (f"parse-result-shared-between-calls:{type(d).__name__}:{'+'.join(diff)}", f"after the caller changed the object parsed from {s[:120]!r}, parsing the same text again gives different {diff}")
    return None


_X: t.Dict[str, t.Any] = {}


def _work(job: U.Job) -> evid.Local:
    # a library call that never returns is reported (CallDoesNotReturn), it does not hang the check
    with K.watchdog():
        return _work_cases(job)


def _work_cases(job: U.Job) -> evid.Local:
    loc = evid.Local()
    ks = _X["kinds"]
    first = True
    for d, paths in U.enumerate_job(ks, job):
        loc.add("states")
        loc.add("transitions", 2)
        r = check_one(d)
        if first:
            loc.distinct.add((type(d).__name__, paths, job[2]))
            first = False
            if len(job[1]) == 2:
                loc.sample({"definition": str(d)[:200]}, cap=1)
        if r:
            loc.violation(r[0], r[1], {"definition": A.src(d)})
    return loc


def run(ctx: evid.Ctx) -> None:
    thorough = ctx.tier == "thorough"
    d = 3  # cheap enough for both tiers
    ks = kinds()
    _X["kinds"] = ks
    jobs = U.jobs(ks, d)
    jobs.sort(key=lambda j: -U.job_size(ks, j))
    # split the biggest jobs is unnecessary: sizes are bounded by the crossing domains
    for loc in par.pmap(_work, jobs, ctx.seed):
        evid.absorb(ctx, loc)
    ctx.counters["evaluations"] = ctx.counters.get("states", 0)
    ctx.rule = (
        f"full(2) + dev({d}) over the fields of the three description classes; description / extension text ranges over every "
        "string of <= 2 characters from the 16 characters any branch of writer or reader looks at; one case = one definition "
        "printed and parsed back; distinct_nontrivial counts distinct (class, deviating fields) classes"
    )
    ctx.bounds = {"deviations": d, "text_chars": CHARS, "texts": len(texts()), "classes": [k.name for k in ks]}
    ctx.assumptions = ["fields are RFC 4512-valid (numeric oid, descriptor names, non-empty texts); a syntax length only together with a syntax"]


def replay(case: t.Dict[str, t.Any], key: t.Optional[str] = None) -> t.Tuple[bool, str]:
    d = A.unsrc(case["definition"])
    r = check_one(d)
    return (r is None), f"{str(d)[:300]!r}" + (f"\n  {r[0]}: {r[1]}" if r else "\n  round-trips")
