"""C03 -- encoded messages are RFC 4511 BER that an independent strict decoder reads back."""
from __future__ import annotations

import typing as t

from vf import abs as A
from vf import universe as U
from vf.checks import common as K
from vf.engine import evid, par
from vf.ref import ber
from vf.ref import ldap as R


def check_one(m: t.Any) -> t.List[t.Tuple[str, str]]:
    out: t.List[t.Tuple[str, str]] = []
    try:
        with K.guard(10):
            b = m.pack(K.OPTS)
    except BaseException as e:
        return [(f"pack-raises:{K.exc_key(e)}", f"pack raised {type(e).__name__}: {e}")]
    try:
        want = A.absmsg(m, K.OPTS)
    except A.NotBytes as e:
        return [(f"inconsistent-value:{e.tag}", str(e))]
    try:
        got = R.decode_message(b, strict=True)
    except ber.BerError as e:
        out.append((f"not-rfc4511:{type(m).__name__}:{K.exc_key(e)}", f"strict RFC 4511 decoder rejects {b.hex()[:80]}: {e}"))
        # keep checking the rest of the message when the only problem is the P/C bit of the protocolOp
        # (so a listed finding about that bit cannot hide anything else in the same message)
        try:
            tree, _end = ber.parse_one(b, 0, strict=True)
            op = tree.children[1]
            if op.children == []:
                op.children, op.content, op.constructed = None, b"", False
            got = R.decode_message(ber.encode(tree), strict=True)
        except (ber.BerError, IndexError, TypeError):
            return out
    d = K.diff_path(want, got)
    if d:
        out.append((f"decodes-differently:{type(m).__name__}:{K.strip_idx(d)}", f"independent decoder reads a different message at {d}"))
        return out
    for c in got["controls"] or []:
        if c["controlType"] == R.PAGED_OID:
            # RFC 2696: the control value is itself BER (realSearchControlValue)
            src = [x for x in m.controls if x.control_type.encode() == R.PAGED_OID and x.get_value(K.OPTS.control) == c["controlValue"]]
            try:
                pv = R.decode_paged_value(c["controlValue"] or b"", strict=True)
            except ber.BerError as e:
                out.append((f"paged-value-not-ber:{K.exc_key(e)}", f"paged-results control value {(c['controlValue'] or b'').hex()[:60]} is not RFC 2696 BER: {e}"))
                continue
            if not any(getattr(x, "size", None) == pv["size"] and getattr(x, "cookie", None) == pv["cookie"] for x in src):
                out.append(("paged-value-differs", f"paged-results control value decodes to {pv}"))
    return out


_STATE: t.Dict[str, t.Any] = {}


def _work(job: U.Job) -> evid.Local:
    loc = evid.Local()
    ks = _STATE["kinds"]
    first = True
    for m, paths in U.enumerate_job(ks, job):
        loc.add("states")
        loc.add("transitions", 2)
        r = check_one(m)
        if first:
            loc.distinct.add((type(m).__name__, paths, job[2]))
            first = False
            if len(job[1]) == 2:
                loc.sample({"msg": A.src(m)[:300], "bytes": m.pack(K.OPTS).hex()[:120]}, cap=1)
        for v in r:
            loc.violation(v[0], v[1], {"msg": A.src(m)})
    return loc


def selfcheck_reference(ks: t.List[U.Kind]) -> int:
    """The reference must be its own inverse on U's dev(1) slice: decode(encode(a)) == a."""
    n = 0
    for m in U.base_messages(ks):
        try:
            a = A.absmsg(m, K.OPTS)
        except A.BadField:
            continue
        b = ber.encode(R.encode_message(a))
        back = R.decode_message(b, strict=True)
        if back != a:
            raise AssertionError(f"reference codec is not an identity on {A.src(m)[:200]}: {K.diff_path(a, back)}")
        n += 1
    return n


# library member name -> RFC 4511 identifier, where the spelling is not a plain case conversion
_ALIAS = {"STRONG_AUTH_REQUIRED": "strongerAuthRequired", "INVALID_DN_SYNTAX": "invalidDNSyntax", "NOT_ALLOWED_ON_RDN": "notAllowedOnRDN",
          "AFFECTS_MULTIPLE_DSAS": "affectsMultipleDSAs", "BASE": "baseObject", "ONE_LEVEL": "singleLevel", "SUBTREE": "wholeSubtree",
          "NEVER": "neverDerefAliases", "IN_SEARCHING": "derefInSearching", "FINDING_BASE_OBJ": "derefFindingBaseObj", "ALWAYS": "derefAlways"}  # fmt: skip


def _rfc_name(member: str) -> str:
    if member in _ALIAS:
        return _ALIAS[member]
    parts = member.lower().split("_")
    return parts[0] + "".join(p.capitalize() for p in parts[1:])


def named_values(ctx: evid.Ctx) -> None:
    """A named enumeration member must go on the wire as the number RFC 4511 gives that name (a table the
    library's own decoder shares with its encoder cannot vouch for itself)."""
    import sansldap as L

    res = lambda c: L.LDAPResult(c, "", "", None)  # noqa: E731
    for enum_cls, table, mk, path in (
        (L.LDAPResultCode, R.RESULT_CODES, lambda c: L.SearchResultDone(1, [], res(c)), ("protocolOp", 1, "resultCode")),
        (L.SearchScope, R.SEARCH_SCOPE, lambda c: L.SearchRequest(1, [], "", c, L.DereferencingPolicy.NEVER, 0, 0, False, L.FilterPresent("a"), []), ("protocolOp", 1, "scope")),
        (L.DereferencingPolicy, R.DEREF_ALIASES, lambda c: L.SearchRequest(1, [], "", L.SearchScope.BASE, c, 0, 0, False, L.FilterPresent("a"), []), ("protocolOp", 1, "derefAliases")),
    ):
        for name, member in enum_cls.__members__.items():
            ctx.add("states")
            ctx.add("transitions", 2)
            rfc = _rfc_name(name)
            if rfc not in table:
                continue  # a name RFC 4511 does not define (an extension): nothing to compare with
            v = R.decode_message(mk(member).pack(K.OPTS), strict=False)
            for k in path:
                v = v[k]
            if v != table[rfc]:
                ctx.violation(f"named-value-wrong:{enum_cls.__name__}.{name}", f"{enum_cls.__name__}.{name} is encoded as {v}; RFC 4511 defines {rfc} ({table[rfc]})", {"msg": A.src(mk(member))})


def decoded_known_controls(ctx: evid.Ctx) -> None:
    """Messages an application gets *from the decoder* and sends on: a control of a library-known type (the classes are read
    from ControlOptions, so newly added ones are covered) that arrived with no value / an empty value / other octets / the
    class's own value exposes those octets as ``.value``; encoding that message must put exactly those octets on the wire."""
    import sansldap as L

    from vf.checks.c01 import _OID, _instances

    res = L.LDAPResult(L.LDAPResultCode.SUCCESS, "", "", None)
    for cls in list(L.ControlOptions().choices):
        ct = getattr(cls, "control_type", None)
        if not (isinstance(ct, str) and _OID.match(ct)):
            continue
        own = []
        for inst in _instances(cls):
            try:
                own.append(inst.get_value(K.OPTS.control))
            except BaseException:  # noqa: BLE001, S112
                continue
        for crit in (False, True):
            for v in [None, b"", b"zz", b"\x30\x00"] + [x for x in own if x is not None]:
                wire = L.SearchResultDone(3, [L.LDAPControl(ct, crit, v)], res).pack(K.OPTS)
                try:
                    m2, _rest = K.unpack(wire)
                except BaseException:  # noqa: BLE001, S112
                    continue  # not a value of that type: refusing it is the decoder's business (C05)
                got = m2.controls[-1]
                ctx.add("states")
                ctx.add("transitions", 2)
                exposed = getattr(got, "value", None)
                back = R.decode_message(m2.pack(K.OPTS), strict=False)["controls"][-1]
                if back["controlType"] != ct.encode() or back["criticality"] != crit or (exposed is not None and back["controlValue"] != exposed):
                    ctx.violation(f"decoded-known-control-encodes-differently:{cls.__name__ if cls.__module__.startswith('sansldap') else 'custom'}",
                                  f"{A.src(got)[:120]} (decoded from type {ct}, criticality {crit}, value {v!r}) is encoded as {back}", {"msg": None, "decoded_known": [ct, crit, None if v is None else v.hex()]})  # fmt: skip
        ctx.distinct.add(("decoded-known", ct))


def _lists_in(o: t.Any, seen: t.Set[int]) -> t.Iterator[t.List[t.Any]]:
    import dataclasses

    if id(o) in seen:
        return
    seen.add(id(o))
    if isinstance(o, list):
        yield o
        for x in list(o):
            yield from _lists_in(x, seen)
    elif dataclasses.is_dataclass(o) and not isinstance(o, type):
        for f in dataclasses.fields(o):
            yield from _lists_in(getattr(o, f.name), seen)


def pack_mutate_pack(ctx: evid.Ctx) -> None:
    """A message object is packed, then one of the (ordinary, mutable) lists inside it is changed by the application -- a
    sub-filter or a value appended, one removed -- and it is packed again: the second encoding must be that of the message as
    it now is (nothing remembered from the first).  Every list of every rich base message, grown and shrunk."""
    import copy

    for base in U.base_messages(U.kinds()):
        n_lists = sum(1 for lst in _lists_in(base, set()) if lst)
        for li in range(n_lists):
            for how in ("append", "pop"):
                m = copy.deepcopy(base)
                try:
                    m.pack(K.OPTS)
                except BaseException:  # noqa: BLE001, S112
                    continue
                lst = [x for x in _lists_in(m, set()) if x][li]
                if how == "append":
                    lst.append(copy.deepcopy(lst[0]))
                else:
                    lst.pop()
                ctx.add("states")
                ctx.add("transitions", 2)
                for k, w in check_one(m):
                    if k.startswith("not-rfc4511:UnbindRequest"):
                        continue
                    ctx.violation(f"after-caller-mutation:{k}", f"packed, then a list inside the message was changed ({how}), packed again: {w}", {"msg": None, "mutate": [A.src(base)[:1500], li, how]})
    ctx.distinct.add(("pack-mutate-pack",))


def run(ctx: evid.Ctx) -> None:
    thorough = ctx.tier == "thorough"
    named_values(ctx)
    pack_mutate_pack(ctx)
    decoded_known_controls(ctx)
    d = 3 if thorough else 2
    ks = U.kinds(big=thorough, depth3=thorough)
    _STATE["kinds"] = ks
    ctx.note("reference_self_inverse_cases", selfcheck_reference(U.kinds()))
    for m in U.big_messages():
        ctx.add("states")
        ctx.add("transitions", 2)
        for v in check_one(m):
            ctx.violation(v[0], v[1], {"msg": A.src(m) if len(A.src(m)) < 2000 else None, "big": repr(type(m).__name__)})
    jobs = U.jobs(ks, d)
    jobs.sort(key=lambda j: -U.job_size(ks, j))
    for loc in par.pmap(_work, jobs, ctx.seed):
        evid.absorb(ctx, loc)
    ctx.counters["evaluations"] = ctx.counters.get("states", 0)
    ctx.rule = (
        f"U = full(2) + dev({d}) over 9 message kinds; one case = one message packed by the library and decoded by the "
        "strict RFC 4511 reference decoder (vf/ref/ldap.py), results compared as abstract values; distinct_nontrivial "
        "counts distinct (kind, set of deviating field paths) classes"
    )
    ctx.bounds = {"deviations": d, "kinds": [k.name for k in ks]}
    ctx.assumptions = [
        "the reference decoder does not enforce SIZE/range constraints (Referral SIZE(1..MAX), INTEGER(0..maxInt)): the "
        "property is about encoding fidelity, not about which abstract values callers may build",
        "custom (registered) control/filter/credential types are outside RFC 4511's module and are not enumerated here",
    ]


def replay(case: t.Dict[str, t.Any], key: t.Optional[str] = None) -> t.Tuple[bool, str]:
    if case.get("msg") is None and "decoded_known" in case:
        c = evid.Ctx("C03", "quick", 0)
        decoded_known_controls(c)
        hits2 = [v for k, v in c.viol.items() if key is None or k == key]
        return (not hits2), "\n".join(f"  {v['key']}: {v['what']}" for v in hits2) or "decoded known controls are encoded with the octets they expose"
    if case.get("msg") is None and "mutate" in case:
        c = evid.Ctx("C03", "quick", 0)
        pack_mutate_pack(c)
        hits2 = [v for k, v in c.viol.items() if key is None or k == key]
        return (not hits2), "\n".join(f"  {v['key']}: {v['what']}" for v in hits2) or "pack / mutate / pack again encodes the current value"
    if case.get("msg") is None:
        hits = [v for m in U.big_messages() for v in check_one(m) if key is None or v[0] == key]
        return (not hits), "\n".join(f"  {k}: {w}" for k, w in hits) or "64 KiB cases encode to RFC 4511 BER"
    m = A.unsrc(case["msg"])
    r = [v for v in check_one(m) if key is None or v[0] == key]
    if not r:
        return True, f"{case['msg'][:200]} encodes to RFC 4511 BER"
    return False, f"{case['msg'][:400]}\n  bytes {m.pack(K.OPTS).hex()[:200]}\n  " + "\n  ".join(f"{v[0]}: {v[1]}" for v in r)
