"""Explicit-state search over ONE real session object (LDAPClient or LDAPServer).

A transition is a call on the real object (a deep copy of the predecessor); states are
deduplicated on (structural freeze of the session, ghost).  Monitors for C08, C09 and C10 are
evaluated on every edge.  An edge that violates any monitor is not expanded (its target lies
outside the specified behaviour) unless the violation is a listed known finding.

Ghost variables are computed only from accepted calls and delivered messages:
  traffic   has any message been successfully sent or received
  inprog    operations in progress by the documented completion rules: id -> kind | 'unk'
  issued    number of client requests issued / last id handed out
"""
from __future__ import annotations

import collections
import copy
import dataclasses
import typing as t

import sansldap as L
from sansldap import SessionState as S

from vf import abs as A
from vf.checks import common as K
from vf.engine import par
from vf.ref import ber
from vf.ref import ldap as R

NOTICE = "1.3.6.1.4.1.1466.20036"
OPT = K.OPTS


def _res(code: t.Any = L.LDAPResultCode.SUCCESS) -> t.Any:
    return L.LDAPResult(code, "", "", None)


RESP_KINDS = ["BindResp-ok", "BindResp-sasl", "BindResp-bad", "Entry", "Ref", "Done", "ExtResp", "Notice",
              # decorated variants: what a peer may attach must not change how the message is correlated
              "Done-paged", "ExtResp-named", "Entry-ctl",
              # result codes a client might be tempted to act on: how a response is correlated does not depend on them
              "BindResp-proto", "Done-referral"]


def base_kind(name: str) -> str:
    return {"Done-paged": "Done", "ExtResp-named": "ExtResp", "Entry-ctl": "Entry", "ExtResp-big": "ExtResp", "SearchReq-lim1": "SearchReq", "ExtReq-big": "ExtReq",
            "ExtResp-hugeid": "ExtResp", "Done-hugeid": "Done", "BindResp-proto": "BindResp-bad", "Done-referral": "Done", "BindReq-v2": "BindReq"}.get(name, name)  # fmt: skip
REQ_KINDS = ["BindReq", "SearchReq", "ExtReq", "Unbind", "SearchReq-lim1"]


TLS = "1.3.6.1.4.1.1466.20037"
# well-formed PDUs of operations the library does not implement (hand-assembled): a DelRequest (a request-type message)
# and an IntermediateResponse (a response-type message)
UNKNOWN_KINDS = ["DelReq", "IntermResp"]
# message ids at the edges of the INTEGER encoding: negative (sign bit), 2^31, and more decimal digits than int -> str allows
SPECIAL_IDS = [-1, -128, -129, 2**31]
HUGE_ID = 10**4400  # carried by the kinds "<kind>-hugeid"; the event's id field is the stand-in -4400 (never issued either)


class RawPDU:
    def __init__(self, data: bytes) -> None:
        self.data = data

    def pack(self, _options: t.Any = None) -> bytes:
        return self.data


def _raw(i: int, op: ber.Node) -> RawPDU:
    return RawPDU(ber.encode(ber.Node(ber.UNIVERSAL, True, 16, None, [ber.Node(ber.UNIVERSAL, False, 2, ber.int_content(i)), op])))


def make_msg(kind: str, i: int) -> t.Any:
    C = L.LDAPResultCode
    if kind.endswith("-hugeid"):
        return make_msg(kind[: -len("-hugeid")], HUGE_ID)
    if kind == "DelReq":
        return _raw(i, ber.Node(ber.APPLICATION, False, 10, b"dc=x"))
    if kind == "IntermResp":
        return _raw(i, ber.Node(ber.APPLICATION, True, 25, None, []))
    if kind == "BindResp-proto":
        return L.BindResponse(i, [], L.LDAPResult(C.PROTOCOL_ERROR, "", "version not supported", None), None)
    if kind == "Done-referral":
        return L.SearchResultDone(i, [], L.LDAPResult(C.REFERRAL, "dc=x", "", ["ldap://other/dc=x"]))
    if kind == "BindReq-v2":
        return L.BindRequest(i, [], 2, "", L.SimpleCredential(""))
    if kind == "BindResp-ok":
        return L.BindResponse(i, [], _res(), None)
    if kind == "BindResp-sasl":
        return L.BindResponse(i, [], _res(C.SASL_BIND_IN_PROGRESS), b"x")
    if kind == "BindResp-bad":
        return L.BindResponse(i, [], _res(C.INVALID_CREDENTIALS), None)
    if kind == "Entry":
        return L.SearchResultEntry(i, [], "", [])
    if kind == "Ref":
        return L.SearchResultReference(i, [], ["u"])
    if kind == "Done":
        return L.SearchResultDone(i, [], _res())
    if kind == "ExtResp":
        return L.ExtendedResponse(i, [], _res(), None, None)
    if kind == "Notice":
        return L.ExtendedResponse(i, [], _res(C.UNAVAILABLE), NOTICE, None)
    if kind == "Done-paged":
        return L.SearchResultDone(i, [L.PagedResultControl(False, 0, b"more-pages-cookie")], _res())
    if kind == "ExtResp-named":
        return L.ExtendedResponse(i, [], _res(), "1.3.6.1.4.1.1466.20037", b"v")
    if kind == "Entry-ctl":
        return L.SearchResultEntry(i, [L.LDAPControl("1.2.3", True, b"x")], "cn=e", [L.PartialAttribute("a", [b"v"])])
    if kind == "BindReq":
        return L.BindRequest(i, [], 3, "", L.SimpleCredential(""))
    if kind == "SearchReq":
        return L.SearchRequest(i, [], "", L.SearchScope.BASE, L.DereferencingPolicy.NEVER, 0, 0, False, L.FilterPresent("a"), [])
    if kind == "ExtReq":
        return L.ExtendedRequest(i, [], "1.2", None)
    if kind == "SearchReq-lim1":  # a search that asks for at most one entry: how many entries the server sends is its application's business
        return L.SearchRequest(i, [L.PagedResultControl(False, 1, b"")], "dc=x", L.SearchScope.ONE_LEVEL, L.DereferencingPolicy.NEVER, 1, 1, False, L.FilterPresent("a"), ["cn"])
    if kind == "ExtReq-big":
        return L.ExtendedRequest(i, [], "1.2", b"v" * 1500)
    if kind == "ExtResp-big":
        return L.ExtendedResponse(i, [], _res(), None, b"w" * 1500)
    if kind == "Unbind":
        return L.UnbindRequest(i, [])
    raise KeyError(kind)


CLIENT_CALLS_EXTRA: t.Dict[str, t.Callable[[t.Any], t.Any]] = {
    "ext1k": lambda c: c.extended_request("1.2", b"k" * 1000),  # used by the long runs only
    "ext70k": lambda c: c.extended_request("1.2", b"K" * 70000),
}
CLIENT_CALLS: t.Dict[str, t.Callable[[t.Any], t.Any]] = {
    "bind_simple": lambda c: c.bind_simple(),
    "bind_sasl": lambda c: c.bind_sasl("M", cred=b"c"),
    "search": lambda c: c.search_request(),
    "ext": lambda c: c.extended_request("1.2"),
    "ext_tls": lambda c: c.extended_request(TLS),  # an operation the library knows by name: named operations follow the same rules
    "unbind": lambda c: c.unbind(),
}
SERVER_CALLS: t.Dict[str, t.Callable[[t.Any, int], t.Any]] = {
    "bind_response-ok": lambda s, i: s.bind_response(i),
    "bind_response-sasl": lambda s, i: s.bind_response(i, b"x", L.LDAPResultCode.SASL_BIND_IN_PROGRESS),
    "bind_response-bad": lambda s, i: s.bind_response(i, None, L.LDAPResultCode.INVALID_CREDENTIALS),
    "ext_response": lambda s, i: s.extended_response(i),
    "ext_response-tls": lambda s, i: s.extended_response(i, TLS),
    "notice": lambda s, i: s.extended_response(i, NOTICE),
    "entry": lambda s, i: s.search_result_entry(i, "", []),
    "ref": lambda s, i: s.search_result_reference(i, ["u"]),
    "done": lambda s, i: s.search_result_done(i),
}
SERVER_CALLS_EXTRA: t.Dict[str, t.Callable[[t.Any, int], t.Any]] = {
    "entry1k": lambda s, i: s.search_result_entry(i, "cn=e", [L.PartialAttribute("a", [b"k" * 1000])]),
    "entry70k": lambda s, i: s.search_result_entry(i, "cn=e", [L.PartialAttribute("a", [b"K" * 70000])]),
    "ref0": lambda s, i: s.search_result_reference(i, []),  # C12: a call that succeeds has put exactly one message into the stream
}
GARBAGE = b"\x04\x00"

Event = t.Tuple[str, str, int]  # (kind, name, id)
# kinds:  call      an API call (client: name; server: name + id)
#         callbad   the same call carrying an application-defined control whose get_value() raises (a send
#                   that fails while encoding): whatever it raises, it must leave no trace
#         recv      one whole PDU            recv2   the same PDU cut in two receive() calls
#         recvpeer  the same PDU as a conforming peer may encode it: every length in the 5-octet long form
#         recv3     a 1.5 KB PDU followed by the named short PDU, delivered in three pieces: up to 10 octets before
#                   the boundary, up to 1 octet after it, the rest
#         recvpair  two PDUs "A+B" (same id, or "A+B/next" with ids i and i+1) in ONE receive() call
#         garbage   an undecodable delivery


@dataclasses.dataclass(frozen=True)
class BadControl(L.LDAPControl):
    """An application-defined control whose encoding fails."""

    control_type: str = dataclasses.field(init=False, repr=False, default="1.2.3.999")
    critical: bool = dataclasses.field(init=False, repr=False, default=False)
    value: t.Optional[bytes] = dataclasses.field(init=False, repr=False, default=None)

    def get_value(self, options: L.ControlOptions) -> t.Optional[bytes]:
        raise ValueError("application control failed to encode")


BAD = [BadControl()]
CLIENT_BAD: t.Dict[str, t.Callable[[t.Any], t.Any]] = {
    "bind_simple": lambda c: c.bind_simple(controls=BAD),
    "search": lambda c: c.search_request(controls=BAD),
    "ext": lambda c: c.extended_request("1.2", controls=BAD),
}
SERVER_BAD: t.Dict[str, t.Callable[[t.Any, int], t.Any]] = {
    "bind_response-ok": lambda s, i: s.bind_response(i, controls=BAD),
    "ext_response": lambda s, i: s.extended_response(i, controls=BAD),
    "notice": lambda s, i: s.extended_response(i, NOTICE, controls=BAD),
    "entry": lambda s, i: s.search_result_entry(i, "", [], controls=BAD),
    "done": lambda s, i: s.search_result_done(i, controls=BAD),
}
PAIR_RESP = ["BindResp-ok", "BindResp-sasl", "Entry", "Done", "ExtResp", "Notice"]


ID_BASE = 0  # "start from non-initial states too": ids used are 0 and ID_BASE+1.. (the client has already completed ID_BASE operations)


def aid(r: int) -> int:
    return 0 if r == 0 else ID_BASE + r


def events(role: str, kmax: int) -> t.List[Event]:
    ev: t.List[Event] = []
    if role == "client":
        ev += [("call", n, -1) for n in CLIENT_CALLS]
        ev += [("callbad", n, -1) for n in CLIENT_BAD]
        for i in range(0, kmax + 2):
            ev += [("recv", n, aid(i)) for n in RESP_KINDS]
        for i in (0, 1):
            ev += [("recv", n, aid(i)) for n in REQ_KINDS]
        ev += [("recv", "DelReq", aid(1))]
        for i in range(0, kmax + 2):
            ev.append(("recv", "IntermResp", aid(i)))
        for sid in SPECIAL_IDS:
            ev += [("recv", n, sid) for n in ("ExtResp", "Done")]
        ev += [("recv", "ExtResp-hugeid", -4400), ("recv", "Done-hugeid", -4400)]
        for i in (1, 2):
            ev += [("recv2", n, aid(i)) for n in RESP_KINDS]
        ev += [("recv2", n, 0) for n in ("Unbind", "Notice")]
        ev += [("recvpeer", n, aid(1)) for n in RESP_KINDS + ["Unbind"]]
        ev += [("recv3", n, aid(1)) for n in ("Done", "Notice", "Entry", "BindResp-ok")]
        for a in PAIR_RESP:
            for b in PAIR_RESP:
                ev.append(("recvpair", f"{a}+{b}", aid(1)))
        for a in ("Entry", "Done", "ExtResp"):
            for b in ("Entry", "Done", "ExtResp", "BindResp-ok"):
                ev.append(("recvpair", f"{a}+{b}/next", aid(1)))
    else:
        ev.append(("call", "unbind", -1))
        for i in range(0, kmax + 1):
            ev += [("call", n, aid(i)) for n in SERVER_CALLS]
        ev += [("callbad", n, aid(1)) for n in SERVER_BAD]
        for i in range(0, kmax + 1):
            ev += [("recv", n, aid(i)) for n in REQ_KINDS]
        for i in (0, 1):
            ev += [("recv", n, aid(i)) for n in RESP_KINDS]
        ev += [("recv", "DelReq", aid(i)) for i in (0, 1)] + [("recv", "IntermResp", aid(1))]
        ev += [("recv", "BindReq-v2", aid(i)) for i in range(0, kmax + 1)]
        for i in (1, 2):
            ev += [("recv2", n, aid(i)) for n in REQ_KINDS]
        ev += [("recvpeer", n, aid(1)) for n in REQ_KINDS + ["Notice"]]
        ev += [("recv3", n, aid(1)) for n in ("Unbind", "BindReq", "SearchReq")]
        for a in REQ_KINDS:
            for b in REQ_KINDS:
                ev.append(("recvpair", f"{a}+{b}", aid(1)))
                ev.append(("recvpair", f"{a}+{b}/next", aid(1)))
    ev.append(("garbage", "0400", -1))
    return ev


_PEER: t.Dict[t.Tuple[str, int], bytes] = {}


def _peer_bytes(name: str, i: int) -> bytes:
    b = _PEER.get((name, i))
    if b is None:
        tree, _end = ber.parse_one(make_msg(name, i).pack(OPT), 0, strict=False)
        for n in tree.walk():
            n.lenform = "85"
        b = _PEER[(name, i)] = ber.encode(tree)
    return b


def event_messages(ev: Event) -> t.List[t.Tuple[str, int]]:
    """The (kind name, id) of every PDU an event delivers, in order."""
    kind, name, i = ev
    if kind in ("recv", "recv2", "recvpeer"):
        return [(name, i)]
    if kind == "recv3":
        first = "ExtReq-big" if name in REQ_KINDS else "ExtResp-big"
        return [(first, i), (name, i + 1)]
    if kind == "recvpair":
        nxt = name.endswith("/next")
        a, b = name.replace("/next", "").split("+")
        return [(a, i), (b, i + 1 if nxt else i)]
    return []


def apply_event(role: str, s: t.Any, ev: Event) -> t.Any:
    kind, name, i = ev
    if kind == "call":
        if name == "unbind":
            return s.unbind()
        if role == "client":
            return (CLIENT_CALLS.get(name) or CLIENT_CALLS_EXTRA[name])(s)
        return (SERVER_CALLS.get(name) or SERVER_CALLS_EXTRA[name])(s, i)
    if kind == "callbad":
        return CLIENT_BAD[name](s) if role == "client" else SERVER_BAD[name](s, i)
    if kind == "recv":
        return s.receive(make_msg(name, i).pack(OPT))
    if kind == "recv2":
        b = make_msg(name, i).pack(OPT)
        cut = min(3, len(b) - 1)
        first = s.receive(b[:cut])
        return first + s.receive(b[cut:])
    if kind == "recvpeer":
        return s.receive(_peer_bytes(name, i))
    if kind == "recv3":
        (n1, i1), (n2, i2) = event_messages(ev)
        a, b = make_msg(n1, i1).pack(OPT), make_msg(n2, i2).pack(OPT)
        data = a + b
        out = s.receive(data[: len(a) - 10])
        out = out + s.receive(data[len(a) - 10 : len(a) + 1])
        return out + s.receive(data[len(a) + 1 :])
    if kind == "recvpair":
        return s.receive(b"".join(make_msg(n, j).pack(OPT) for n, j in event_messages(ev)))
    return s.receive(GARBAGE)


Ghost = t.Tuple[bool, t.Tuple[t.Tuple[int, str], ...], int, int]  # (traffic, in progress, ids issued, failed-encode calls made)
G0: Ghost = (False, (), 0, 0)
MAX_BAD_CALLS = 2  # bound on failing-encode calls per history (keeps the space finite even if they leak state)


class Rec(t.NamedTuple):
    pre: t.Any
    post: t.Any
    exc: t.Optional[BaseException]
    ret: t.Any
    out: bytes


def new_session(role: str) -> t.Any:
    if role != "client":
        return L.LDAPServer()
    c = L.LDAPClient()
    for n in range(ID_BASE):  # a client that has already issued and completed ID_BASE operations
        c.extended_request("1.2")
        c.data_to_send()
        c.receive(make_msg("ExtResp", n + 1).pack(OPT))
    return c


def g0(role: str) -> "Ghost":
    return (ID_BASE > 0 and role == "client", (), ID_BASE if role == "client" else 0, 0)


def step(role: str, s: t.Any, g: Ghost, ev: Event, kmax: int, drain: bool = True) -> t.Tuple[t.Any, Ghost, Rec, t.List[t.Tuple[str, str, str]]]:
    """Apply ev to a copy of s.  -> (successor, ghost', record, [(property, key, what)]).
    drain=False leaves the outgoing buffer alone (a backlog builds up); byte-level monitors are then skipped."""
    s2 = copy.deepcopy(s)
    pre = s.state
    exc: t.Optional[BaseException] = None
    ret = None
    try:
        with K.guard(10):
            ret = apply_event(role, s2, ev)
    except BaseException as e:  # noqa: BLE001 - the class is what is being checked
        exc = e
    out = s2.data_to_send() if drain else b""
    if not drain and exc is not None and ev[0] in ("call", "callbad"):
        # with a backlog kept: a refused call must leave the queued bytes exactly as they were
        before, after = copy.deepcopy(s).data_to_send(), copy.deepcopy(s2).data_to_send()
        if before != after:
            out = after[len(before) :] if after.startswith(before) else b"\x00"
    post = s2.state
    rec = Rec(pre, post, exc, ret, out)
    viol: t.List[t.Tuple[str, str, str]] = []
    g2 = monitors(role, g, ev, rec, viol, kmax)
    return s2, g2, rec, viol


def _first_id(out: bytes) -> t.Optional[int]:
    try:
        return R.decode_message(out, strict=False)["messageID"]
    except ber.BerError:
        return None


def _client_expect(inprog: t.Dict[int, str], msgs: t.List[t.Tuple[str, int]]) -> t.Tuple[t.Optional[bool], t.Dict[int, str], str]:
    """Documented fate of a delivery to a client: (expected accepted? / None = the property is silent, ghost after, why)."""
    g = dict(inprog)
    for name, i in msgs:
        name = base_kind(name)
        if name in REQ_KINDS or name == "DelReq":
            return False, g, f"{name} is a request-type message"
        if name == "IntermResp":
            if g.get(i) is None:
                return False, g, f"{name} for id {i} which is not in progress"
            return None, g, "unknown"  # what a response kind the library does not implement does to an operation in progress is not specified
        if name == "Notice":
            return False, g, "notice of disconnection terminates"
        st = g.get(i)
        if st == "unk":
            return None, g, "unknown"
        if st is None:
            return False, g, f"{name} for id {i} which is not in progress"
        if st == "search":
            if name == "Done":
                g.pop(i, None)
            elif name not in ("Entry", "Ref"):
                g[i] = "unk"  # the property does not say what a mismatched kind does to a search
        else:
            g.pop(i, None)
    return True, g, "every id is in progress"


def _server_expect(inprog: t.Dict[int, str], msgs: t.List[t.Tuple[str, int]]) -> t.Tuple[t.Optional[bool], t.Dict[int, str], str]:
    g = dict(inprog)
    for name, i in msgs:
        name = base_kind(name)
        if name in RESP_KINDS or name == "IntermResp":
            return False, g, f"{name} is a response-type message"
        if name == "DelReq":
            return None, g, "unknown"  # a request the library does not implement: refused today, possibly supported tomorrow
        if name == "Unbind":
            return False, g, "unbind terminates"
        if name == "BindReq" and any(v != "unk" for v in g.values()):
            return False, g, f"bind request while {sorted(g)} are outstanding"
        if name == "BindReq" and g:
            return None, g, "unknown"
        g[i] = {"BindReq": "bind", "SearchReq": "search", "ExtReq": "ext"}[name]
    return True, g, "requests are always accepted"


def monitors(role: str, g: Ghost, ev: Event, rec: Rec, viol: t.List[t.Tuple[str, str, str]], kmax: int) -> Ghost:
    kind, name, i = ev
    traffic, inprog_t, issued, nbad = g
    inprog = dict(inprog_t)
    pre, post, exc, ret, out = rec
    accepted = exc is None
    if kind == "callbad":
        nbad += 1

    def flag(prop: str, key: str, what: str) -> None:
        viol.append((prop, key, what))

    is_call = kind in ("call", "callbad")
    is_recv = not is_call
    single = kind in ("recv", "recv2", "recvpeer")  # one PDU: every lifecycle clause applies (recvpair / recv3 carry two)
    msgs = event_messages(ev)
    # (g) only the library's error types (a callbad raises whatever the application's control raised)
    if exc is not None:
        if kind == "call" and not isinstance(exc, L.LDAPError):
            flag("C08", f"g-call-raises:{type(exc).__name__}:{name}", f"{name} raised {type(exc).__name__}: {exc}")
            flag("C10", f"refused-with-foreign-exception:{type(exc).__name__}:{name}", f"{name} raised {type(exc).__name__}: {exc}")
        if is_recv and not isinstance(exc, L.ProtocolError):
            flag("C08", f"g-receive-raises:{type(exc).__name__}", f"receive({name}) raised {type(exc).__name__}: {exc}")
            flag("C05", f"receive-raises:{type(exc).__name__}:after-history", f"{role}.receive({kind} {name} id {i}) raised {type(exc).__name__}: {exc}")
    if kind == "callbad" and accepted:
        flag("C10", f"failed-encoding-accepted:{role}:{name}", f"{role} {name} with a control that cannot be encoded returned normally")
    # C10: a refused send call leaves the outgoing stream untouched
    if is_call and not accepted and out:
        flag("C10", f"refused-call-left-bytes:{role}:{name}", f"{role} {name}({i}) was refused ({type(exc).__name__}) but {len(out)} bytes were queued: {out.hex()[:60]}")
    # a delivery never puts anything into the outgoing stream (what a session wants sent on an error travels on the exception)
    if is_recv and out:
        flag("C10", f"receive-queued-bytes:{role}:{base_kind(name)}", f"{role}.receive({kind} {name} id {i}) left {len(out)} bytes in the outgoing stream: {out.hex()[:60]}")
    # (a) CLOSED is absorbing
    if pre == S.CLOSED:
        if post != S.CLOSED:
            flag("C08", f"a-closed-left:{role}:{name}", f"closed {role} moved to {post.name} on {kind} {name}")
        if accepted:
            flag("C08", f"a-closed-accepted:{role}:{kind}:{name}", f"closed {role} accepted {kind} {name}")
        if out:
            flag("C08", f"a-closed-bytes:{role}:{name}", f"closed {role} produced {len(out)} bytes on {kind} {name}")
        return (g[0], g[1], g[2], nbad)
    # (h) a refused call changes nothing visible
    if is_call and not accepted and post != pre:
        if role == "server" and pre == S.BEFORE_OPEN and post == S.OPENED and name != "unbind" and isinstance(exc, L.LDAPError):
            # one call site: any refused response call on a server that has seen no traffic
            flag("C08", "h-refused-response-opens-fresh-server", f"server {name}({i}) was refused but state went BEFORE_OPEN -> OPENED")
        else:
            flag("C08", f"h-refused-call-changed-state:{role}:{kind}:{name}:{pre.name}->{post.name}", f"{role} {name}({i}) failed ({type(exc).__name__}) but state went {pre.name} -> {post.name}")
    is_bindreq = accepted and ((role == "client" and kind == "call" and name.startswith("bind_")) or (role == "server" and single and base_kind(name) == "BindReq"))
    is_final_bindresp = accepted and (
        (role == "server" and kind == "call" and name in ("bind_response-ok", "bind_response-bad"))
        or (role == "client" and single and base_kind(name) in ("BindResp-ok", "BindResp-bad"))
    )
    if is_call or single or kind == "garbage":
        # (b) BINDING is entered exactly by an accepted bind request
        if pre != S.BINDING and post == S.BINDING and not is_bindreq:
            flag("C08", f"b-binding-without-bind-request:{role}:{name}", f"{role} entered BINDING on {kind} {name} ({'accepted' if accepted else 'refused'})")
        if is_bindreq and post != S.BINDING:
            flag("C08", f"b-bind-request-not-binding:{role}", f"{role} accepted a bind request but state is {post.name}")
        # (c) BINDING is left only by a final bind response or a termination
        if pre == S.BINDING and post not in (S.BINDING, S.CLOSED) and not is_final_bindresp:
            flag("C08", f"c-left-binding:{role}:{name}:{'accepted' if accepted else 'refused'}", f"{role} left BINDING for {post.name} on {kind} {name}")
        if pre == S.BINDING and is_final_bindresp and post != S.OPENED:
            flag("C08", f"c-final-bind-response-not-opened:{role}", f"{role} processed a final bind response but state is {post.name}")
        if pre == S.BINDING and post == S.CLOSED:
            legit = (kind == "call" and accepted and name in ("unbind", "notice")) or (is_recv and isinstance(exc, L.ProtocolError))
            if not legit:
                flag("C08", f"c-binding-closed-without-termination:{role}:{name}", f"{role} went BINDING -> CLOSED on {kind} {name}")
        # (e) while BINDING only bind traffic or a termination is sent
        if pre == S.BINDING and is_call and accepted and not (name.startswith("bind_") or name in ("unbind", "notice")):
            flag("C08", f"e-sent-while-binding:{role}:{name}", f"{role} sent {name} while BINDING")
        # (f) BEFORE_OPEN is left exactly on first traffic
        got_msgs = is_recv and accepted and bool(ret)
        if (is_call and accepted or got_msgs) and post == S.BEFORE_OPEN:
            flag("C08", f"f-traffic-but-before-open:{role}:{name}", f"{role} sent/received {name} but is still BEFORE_OPEN")
        if pre == S.BEFORE_OPEN and post not in (S.BEFORE_OPEN, S.CLOSED) and not (is_call and accepted or got_msgs):
            if not (is_call and not accepted):  # that case is already reported by (h)
                flag("C08", f"f-opened-without-traffic:{role}:{name}", f"{role} left BEFORE_OPEN for {post.name} without traffic")
    # closing: unbind / notice sent, or any ProtocolError on receive
    if kind == "call" and accepted and name in ("unbind", "notice") and post != S.CLOSED:
        flag("C08", f"term-not-closed:{role}:{name}", f"{role} sent {name} but state is {post.name}")
    if is_recv and exc is not None and post != S.CLOSED:
        flag("C08", f"error-not-closed:{role}:{type(exc).__name__}", f"{role}.receive raised {type(exc).__name__} but state is {post.name}")
    if is_recv and accepted and post == S.CLOSED:
        flag("C08", f"closed-without-error:{role}:{name}", f"{role}.receive({name}) returned normally but the session is CLOSED")
    if is_recv and accepted and kind != "garbage" and len(ret) != len(msgs):
        flag("C08", f"delivery-count:{role}:{kind}", f"{role}.receive({kind} {name}) returned {len(ret)} messages for {len(msgs)} PDUs")

    # (i) documented preconditions hold => the call is accepted (ghost-based; silent where the ghost is unknown)
    definite = {k: v for k, v in inprog.items() if v != "unk"}
    if kind == "call" and not any(v == "unk" for v in inprog.values()):
        if role == "client":
            if name.startswith("bind_"):
                should = not inprog
            elif name == "unbind":
                should = True
            else:
                should = pre != S.BINDING
        else:
            if name == "unbind":
                should = True
            else:
                should = i in inprog and (pre != S.BINDING or name.startswith("bind_response") or name == "notice")
        if should and not accepted and isinstance(exc, L.LDAPError):
            flag("C08", f"i-documented-call-refused:{role}:{name}:{pre.name}", f"{role} {name}({i}) refused in {pre.name} with in-progress {sorted(inprog.items())}: {exc}")

    issued2 = issued
    # ---- client ghost + C09 ----
    if role == "client":
        if kind == "call" and accepted and name != "unbind":
            issued2 = issued + 1
            if not (type(ret) is int and ret > 0 and ret > issued):
                flag("C09", f"id-not-increasing:{name}", f"{name} returned id {ret!r} after {issued}")
            wire = _first_id(out) if out else ret
            if wire != ret:
                flag("C09", f"id-on-wire-differs:{name}", f"{name} returned id {ret!r} but the emitted bytes carry id {wire!r}")
            if type(ret) is int:
                issued2 = max(issued2, ret)
                inprog[ret] = "search" if name == "search" else "bind" if name.startswith("bind_") else "ext"  # ext, ext1k
        if msgs:
            exp, g_after, why = _client_expect(inprog, msgs)
            label = "+".join(n for n, _ in msgs)
            if exp is not None and exp != accepted:
                flag(
                    "C09",
                    f"response-{'rejected' if exp else 'accepted'}:{kind}:{label}:{'in-progress' if exp else 'not-in-progress'}",
                    f"{kind} {label} (ids {[j for _, j in msgs]}) was {'accepted' if accepted else 'rejected: ' + str(exc)}; documented: {why}; ghost in-progress = {dict(inprog)}",
                )
            if exp is True and not accepted:
                flag("C08", f"i-delivery-refused:client:{label}:{pre.name}", f"client in {pre.name} rejected {label} (ids {[j for _, j in msgs]}) for operations in progress {sorted(inprog.items())}: {exc}")
            if exp is False and not accepted and (not isinstance(exc, L.ProtocolError) or post != S.CLOSED):
                flag("C09", f"reject-not-fatal:{label}", f"rejected delivery raised {type(exc).__name__}, state {post.name}")
            if accepted:
                if exp is None:
                    # replay the accepted sequence with 'unk' kept sticky
                    for n, j in msgs:
                        n = base_kind(n)
                        st = inprog.get(j)
                        if n == "IntermResp":
                            inprog[j] = "unk"
                        elif st == "search":
                            if n == "Done":
                                inprog.pop(j, None)
                            elif n not in ("Entry", "Ref"):
                                inprog[j] = "unk"
                        elif st == "unk":
                            if n == "Done":
                                inprog.pop(j, None)
                        else:
                            inprog.pop(j, None)
                else:
                    inprog = g_after
    # ---- server ghost + C10 ----
    else:
        if msgs:
            exp, g_after, why = _server_expect(inprog, msgs)
            label = "+".join(n for n, _ in msgs)
            if exp is True and not accepted:
                flag("C08", f"i-request-refused:{kind}:{label}", f"server rejected {label} (ids {[j for _, j in msgs]}): {exc}; outstanding {sorted(inprog)}")
            if exp is False and accepted:
                key = "d-bind-with-outstanding:server" if "bind request while" in why else f"i-delivery-accepted:{kind}:{label}"
                flag("C08", key, f"server accepted {label} although {why}")
            if accepted:
                for n, j in msgs:
                    n = base_kind(n)
                    if n in ("BindReq", "SearchReq", "ExtReq"):
                        inprog[j] = {"BindReq": "bind", "SearchReq": "search", "ExtReq": "ext"}[n]
                    elif n == "DelReq":
                        inprog[j] = "unk"
        if kind == "call" and name != "unbind":
            if accepted and i not in inprog:
                flag("C10", f"response-to-unknown-request-accepted:{name}", f"server sent {name} for id {i}; outstanding = {sorted(inprog)}")
            if accepted and i in inprog and out:
                wire = _first_id(out)
                if wire != i:
                    flag("C10", f"response-id-on-wire-differs:{name}", f"{name}({i}) emitted id {wire!r}")
            if accepted and name not in ("entry", "ref", "entry1k", "entry70k"):
                inprog.pop(i, None)
    # (d) client side: a bind cannot start while other operations are outstanding
    if role == "client" and is_bindreq and definite:
        flag("C08", "d-bind-with-outstanding:client", f"client accepted a bind request while {sorted(definite.items())} were in progress")
    if post == S.CLOSED:
        inprog = {}
    return (traffic or accepted, tuple(sorted(inprog.items())), issued2, nbad)


# ---------------------------------------------------------------------------------------
class Result:
    def __init__(self) -> None:
        self.states = 0
        self.transitions = 0
        self.validated = 0
        self.levels = 0
        self.viol: t.Dict[t.Tuple[str, str], t.Dict[str, t.Any]] = {}
        self.outcomes: t.Set[t.Any] = set()
        self.sample_paths: t.List[t.Any] = []
        self.unexpanded = 0
        self.capped = False
        self.replay_structural_mismatch = 0
        self.cap = 0


_X: t.Dict[str, t.Any] = {}


def _expand(chunk: t.Tuple[int, int]) -> t.List[t.Any]:
    role, kmax, evs, known = _X["role"], _X["kmax"], _X["events"], _X["known"]
    frontier = _X["frontier"]
    out = []
    for idx in range(chunk[0], chunk[1]):
        s, g, hist = frontier[idx]
        for ev in evs:
            if role == "client" and ev[0] in ("call", "callbad") and ev[1] != "unbind" and g[2] - (ID_BASE if role == "client" else 0) >= kmax:
                continue
            if ev[0] == "callbad" and g[3] >= MAX_BAD_CALLS:
                continue
            s2, g2, rec, viol = step(role, s, g, ev, kmax)
            outcome = (ev[0], ev[1], rec.pre.name, rec.post.name, type(rec.exc).__name__ if rec.exc else "ok", bool(rec.out))
            expand = all((p, k) in known or (_X["prop"] is not None and p != _X["prop"]) for p, k, _w in viol)
            key = (A.freeze(s2), g2)
            out.append((idx, ev, key, s2 if expand else None, g2, viol, outcome))
    return out


BATCH = 1500
STATE_CAP = 30000  # several times the state count of the pinned tree at the thorough bound: a space that keeps growing is cut here


def explore(role: str, kmax: int, known: t.Set[t.Tuple[str, str]], seed: int = 0, parallel: bool = False, prop: t.Optional[str] = None, id_base: int = 0, cap: int = 0) -> Result:
    """``prop``: the property whose check is running.  An edge that violates one of *its* monitors is not expanded
    (its target lies outside the specified behaviour) unless the violation is a listed known finding; violations of
    other properties' monitors do not stop the search (each check must find what it can on its own)."""
    global ID_BASE
    ID_BASE = id_base
    res = Result()
    cap = cap or STATE_CAP
    res.cap = cap
    evs = events(role, kmax)
    init = new_session(role)
    seen: t.Dict[t.Any, int] = {(A.freeze(init), g0(role)): 0}
    frontier: t.List[t.Any] = [(init, g0(role), [])]
    res.states = 1
    # determinism: the same history replayed twice gives identical observations
    probe = [e for e in evs if e[0] == "call"][:3] + [e for e in evs if e[0] == "recv"][:3] + [e for e in evs if e[0] == "recvpair"][:2]
    assert run_history(role, probe, kmax)[1] == run_history(role, probe, kmax)[1], "replay is not deterministic"
    while frontier:
        if res.states > cap:
            res.capped = True  # reported in the evidence (exhaustive = false); violations found so far still count
            break
        res.levels += 1
        _X.update(role=role, kmax=kmax, events=evs, known=known, frontier=frontier, prop=prop)
        nxt: t.List[t.Any] = []
        # in batches, so that a space that has stopped closing (every successor new) is cut at the cap before all
        # successors of a huge frontier have been computed and shipped back
        for b0 in range(0, len(frontier), BATCH):
          if res.capped:
            break
          b1 = min(len(frontier), b0 + BATCH)
          chunks = [(b0 + lo, b0 + hi) for lo, hi in par.split(b1 - b0, (par.ncpu() * 4) if parallel and b1 - b0 > 64 else 1)]
          results = par.pmap(_expand, chunks, seed) if len(chunks) > 1 else [_expand(c) for c in chunks]
          for part in results:
              for idx, ev, key, s2, g2, viol, outcome in part:
                  res.transitions += 1
                  res.outcomes.add(outcome)
                  hist = frontier[idx][2]
                  for p, k, w in viol:
                      e = res.viol.get((p, k))
                      if e is None:
                          res.viol[(p, k)] = {"what": w, "history": hist + [ev], "count": 1}
                      else:
                          e["count"] += 1
                  if s2 is None:
                      res.unexpanded += 1
                      continue
                  if key not in seen:
                      if res.states > cap:
                          res.capped = True
                          continue
                      seen[key] = len(seen)
                      res.states += 1
                      h2 = hist + [ev]
                      # conformance: replaying the history on a fresh object reaches the same canonical state
                      s3, _obs = run_history(role, h2, kmax)
                      if A.freeze(s3) != key[0]:
                          # structurally different: tolerable only if nothing a caller can see differs (private bookkeeping the
                          # calibration runs did not classify); a visible difference means the exploration is not deterministic
                          if A.public_view(s3) != A.public_view(s2) or copy.deepcopy(s3).data_to_send() != copy.deepcopy(s2).data_to_send():
                              raise AssertionError(f"deepcopy-then-step and replay disagree after {h2}")
                          res.replay_structural_mismatch += 1
                      res.validated += 1
                      if len(res.sample_paths) < 6 and len(h2) >= 3:
                          res.sample_paths.append([list(e) for e in h2])
                      nxt.append((s2, g2, h2))
        frontier = nxt
    return res


def run_history(role: str, hist: t.Sequence[Event], kmax: int) -> t.Tuple[t.Any, t.List[t.Any]]:
    s = new_session(role)
    obs = []
    for ev in hist:
        exc = None
        ret = None
        try:
            ret = apply_event(role, s, tuple(ev))  # type: ignore[arg-type]
        except BaseException as e:  # noqa: BLE001
            exc = e
        out = s.data_to_send()
        obs.append((tuple(ev), type(exc).__name__ if exc else None, repr(ret)[:80] if not isinstance(ret, list) else len(ret), out.hex(), s.state.name))
    return s, obs


def replay_history(role: str, hist: t.Sequence[t.Sequence[t.Any]], kmax: int, prop: str, key: t.Optional[str], id_base: int = 0) -> t.Tuple[bool, str]:
    global ID_BASE
    ID_BASE = id_base
    s = new_session(role)
    g = g0(role)
    lines = []
    hit = False
    for raw in hist:
        ev = (raw[0], raw[1], raw[2])
        s, g, rec, viol = step(role, s, g, ev, kmax)
        lines.append(f"  {ev} -> {'raised ' + type(rec.exc).__name__ if rec.exc else 'ok'}; state {rec.pre.name} -> {rec.post.name}; {len(rec.out)} bytes out")
        for p, k, w in viol:
            if p == prop:
                lines.append(f"     !! {p} {k}: {w}")
                if key is None or k == key:
                    hit = True
    return (not hit), "\n".join(lines)


def report(ctx: t.Any, prop: str, role: str, kmax: int, res: Result, id_base: int = 0) -> None:
    ctx.add("states", res.states)
    ctx.add("transitions", res.transitions)
    ctx.add("traces_validated_against_impl", res.validated)
    if res.replay_structural_mismatch:
        ctx.add("replayed_states_equal_only_in_what_is_visible", res.replay_structural_mismatch)
    ctx.add(f"{role}_states_K{kmax}_base{id_base}", res.states)
    ctx.add(f"{role}_transitions_K{kmax}_base{id_base}", res.transitions)
    ctx.add(f"{role}_violating_edges_not_expanded", res.unexpanded)
    if res.capped:
        ctx.exhaustive = False
        ctx.note(f"{role}_state_cap_hit", f"search stopped after {res.states} states (cap {res.cap}): the reachable space did not close; everything below BFS level {res.levels} was covered")
        print(f"INCOMPLETE: {role} search stopped at the state cap ({res.states} states); see evidence")
    ctx.distinct |= {(role,) + o for o in res.outcomes}
    for (p, k), e in res.viol.items():
        if p == prop:
            ctx.violation(k, e["what"], {"role": role, "K": kmax, "id_base": id_base, "history": [list(x) for x in e["history"]]}, e["count"])
    for sp in res.sample_paths[:3]:
        ctx.sample({"role": role, "history": sp})


# ---------------------------------------------------------------------------------------
# Long runs: a handful of structured LONG histories (many operations in flight, many cycles, large ids)
# pushed through the same step()/monitors.  The BFS above is exhaustive for <= K requests; these runs
# are its complement along a few designated deep paths (every step is still judged by the ghost).
def _fifo(ids: t.List[int]) -> t.List[int]:
    return list(ids)


def _lifo(ids: t.List[int]) -> t.List[int]:
    return list(reversed(ids))


def _oddeven(ids: t.List[int]) -> t.List[int]:
    return ids[1::2] + ids[0::2]


def client_long_histories(marathon: bool = False) -> t.Iterator[t.Tuple[str, t.List[Event]]]:
    # twelve SASL rounds in one bind, then ten re-binds of two rounds each
    h0: t.List[Event] = []
    nid = 1
    for rounds in [12] + [2] * 10:
        for r in range(rounds):
            h0.append(("call", "bind_sasl", -1))
            h0.append(("recv", "BindResp-sasl" if r < rounds - 1 else "BindResp-ok", nid))
            nid += 1
        h0 += [("call", "ext", -1), ("recv", "ExtResp", nid)]
        nid += 1
    yield "client-sasl-rounds", h0
    # a backlog of > 64 KiB of accepted, undrained requests, then the whole lifecycle on top of it
    hb: t.List[Event] = [("call", "ext1k", -1) for _ in range(75)]
    hb += [("call", "bind_simple", -1)]  # refused: operations outstanding
    hb += [("recv", "ExtResp", k + 1) for k in range(75)]
    hb += [("call", "bind_simple", -1), ("recv", "BindResp-ok", 76), ("call", "search", -1), ("recv", "Done", 77), ("call", "unbind", -1), ("call", "ext", -1)]
    yield "client-backlog-nodrain", hb
    # more than 1 MiB accepted and undrained
    hm: t.List[Event] = [("call", "ext70k", -1) for _ in range(17)] + [("call", "bind_simple", -1)]
    hm += [("recv", "ExtResp", k + 1) for k in range(17)] + [("call", "search", -1), ("call", "unbind", -1)]
    yield "client-backlog-1MiB-nodrain", hm
    if marathon:
        # one search stays open while 33 000 further operations are issued and completed (id roll-over points)
        h1: t.List[Event] = [("call", "search", -1)]
        for k in range(33000):
            h1.append(("call", "ext", -1))
            h1.append(("recv", "ExtResp", k + 2))
            if k % 4096 == 0:
                h1.append(("recv", "Entry", 1))
        h1 += [("recv", "Entry", 1), ("recv", "Done", 1)]
        yield "client-marathon-33000", h1
    for n in (4, 9, 33, 140):
        for order_name, order in (("fifo", _fifo), ("lifo", _lifo), ("oddeven", _oddeven)):
            h: t.List[Event] = []
            nxt = 1
            for cycle in range(3):
                h.append(("call", "bind_simple" if cycle % 2 == 0 else "bind_sasl", -1))
                bind_id = nxt
                nxt += 1
                if cycle % 2 == 1:
                    h.append(("recv", "BindResp-sasl", bind_id))
                    h.append(("call", "bind_sasl", -1))
                    bind_id = nxt
                    nxt += 1
                h.append(("recv2" if cycle else "recv", "BindResp-ok", bind_id))
                ops = []
                for k in range(n):
                    kind = "search" if k % 3 != 2 else "ext"
                    h.append(("call", kind, -1))
                    ops.append((nxt, kind))
                    nxt += 1
                h.append(("call", "bind_simple", -1))  # must be refused: operations outstanding
                for i, kind in ops:
                    if kind == "search":
                        h += [("recv", "Entry", i), ("recv", "Ref", i), ("recv", "Entry-ctl", i)]
                for i in order([i for i, _k in ops]):
                    kind = dict(ops)[i]
                    h.append(("recv", "Done-paged" if kind == "search" and i % 2 else "Done" if kind == "search" else "ExtResp-named", i))
                    h.append(("recvpair", "Entry+Done", i))  # stale responses for a completed id must be fatal ... on a copy
                yield f"client-{n}-{order_name}", h


def server_long_histories() -> t.Iterator[t.Tuple[str, t.List[Event]]]:
    idsets = {
        "small": list(range(1, 34)),
        "many": list(range(1, 160)),
        "boundaries": [127, 128, 129, 255, 256, 32767, 32768, 65535, 65536, 2**31 - 2, 2**31 - 1, 2**31, 2**32, 2**63, 2**64 + 1],
    }
    hb: t.List[Event] = [("recv", "SearchReq", 1), ("recv", "ExtReq", 2)]
    hb += [("call", "entry1k", 1) for _ in range(75)]
    hb += [("call", "done", 1), ("call", "entry", 1), ("call", "ext_response", 2), ("recv", "BindReq", 3), ("call", "entry", 3), ("call", "bind_response-ok", 3), ("recv", "SearchReq", 4), ("call", "notice", 4), ("call", "ext_response", 4)]
    yield "server-backlog-nodrain", hb
    hm: t.List[Event] = [("recv", "SearchReq", 1), ("recv", "ExtReq", 2)] + [("call", "entry70k", 1) for _ in range(17)]
    hm += [("call", "entry", 3), ("call", "done", 1), ("call", "done", 1), ("call", "ext_response", 2), ("call", "ext_response", 2)]
    yield "server-backlog-1MiB-nodrain", hm
    for name, ids in idsets.items():
        for order_name, order in (("fifo", _fifo), ("lifo", _lifo), ("oddeven", _oddeven)):
            h: t.List[Event] = []
            for cycle in range(2):
                h.append(("recv", "BindReq", ids[0]))
                h.append(("call", "bind_response-sasl", ids[0]))
                h.append(("recv2", "BindReq", ids[1]))
                h.append(("call", "entry", ids[1]))  # refused: BINDING
                h.append(("call", "bind_response-ok", ids[1]))
                for k, i in enumerate(ids[2:]):
                    h.append(("recv" if k % 4 else "recvpeer", "SearchReq" if k % 3 != 2 else "ExtReq", i))
                for k, i in enumerate(ids[2:]):
                    if k % 3 != 2:
                        h += [("call", "entry", i), ("call", "ref", i)]
                for i in order(ids[2:]):
                    k = ids[2:].index(i)
                    h.append(("call", "done" if k % 3 != 2 else "ext_response", i))
                    h.append(("call", "entry", i))  # refused: already answered
            yield f"server-{name}-{order_name}", h


def long_runs(role: str, known: t.Set[t.Tuple[str, str]], prop: str, marathon: bool = False) -> t.Tuple[int, int, t.Dict[t.Tuple[str, str], t.Dict[str, t.Any]]]:
    """-> (histories, steps, violations of prop).  A step that must be fatal (stale response) is tried on a copy."""
    global ID_BASE
    ID_BASE = 0
    viols: t.Dict[t.Tuple[str, str], t.Dict[str, t.Any]] = {}
    nh = steps = 0
    gen = client_long_histories(marathon) if role == "client" else server_long_histories()
    for name, hist in gen:
        nh += 1
        s = new_session(role)
        g = g0(role)
        done: t.List[Event] = []
        for ev in hist:
            steps += 1
            s2, g2, rec, viol = step(role, s, g, ev, 10**9, drain="nodrain" not in name)
            done.append(ev)
            for p, k, w in viol:
                if p == prop and (p, k) not in known:
                    e = viols.get((p, k))
                    if e is None:
                        viols[(p, k)] = {"what": f"[long run {name}, step {len(done)}] {w}", "history": list(done) if len(done) < 3000 else [["note", f"long run {name}: first {len(done) - 40} steps elided", -1]] + done[-40:], "count": 1}
                    else:
                        e["count"] += 1
            if rec.post == S.CLOSED and rec.pre != S.CLOSED:
                continue  # a fatal step (expected for stale responses): the run goes on from the state before it
            s, g = s2, g2
    return nh, steps, viols


# ---------------------------------------------------------------------------------------
def denotes(role: str, ev: Event, issued_id: int = 0) -> t.Optional[t.Any]:
    """The message an accepted call event denotes (written down by hand from the API documentation), so that
    what a send puts on the wire can be compared with an encoding the library did not produce itself."""
    kind, name, i = ev
    if kind != "call":
        return None
    C = L.LDAPResultCode
    if name == "unbind":
        return L.UnbindRequest(0, [])
    if role == "client":
        i = issued_id
        if name == "bind_simple":
            return L.BindRequest(i, [], 3, "", L.SimpleCredential(""))
        if name == "bind_sasl":
            return L.BindRequest(i, [], 3, "", L.SaslCredential("M", b"c"))
        if name == "search":
            return L.SearchRequest(i, [], "", L.SearchScope.SUBTREE, L.DereferencingPolicy.NEVER, 0, 0, False, L.FilterPresent("objectClass"), [])
        if name == "ext":
            return L.ExtendedRequest(i, [], "1.2", None)
        if name == "ext_tls":
            return L.ExtendedRequest(i, [], TLS, None)
        return None
    r = lambda code: L.LDAPResult(code, "", "", [])  # noqa: E731  (the server API always writes an empty referral)
    return {
        "bind_response-ok": L.BindResponse(i, [], r(C.SUCCESS), None),
        "bind_response-sasl": L.BindResponse(i, [], r(C.SASL_BIND_IN_PROGRESS), b"x"),
        "bind_response-bad": L.BindResponse(i, [], r(C.INVALID_CREDENTIALS), None),
        "ext_response": L.ExtendedResponse(i, [], r(C.SUCCESS), None, None),
        "ext_response-tls": L.ExtendedResponse(i, [], r(C.SUCCESS), TLS, None),
        "notice": L.ExtendedResponse(i, [], r(C.SUCCESS), NOTICE, None),
        "entry": L.SearchResultEntry(i, [], "", []),
        "ref": L.SearchResultReference(i, [], ["u"]),
        "done": L.SearchResultDone(i, [], r(C.SUCCESS)),
    }.get(name)


def reference_encoding(m: t.Any) -> t.Optional[bytes]:
    """Canonical RFC 4511 encoding by the independent encoder (None for the unbind, whose library encoding is a listed finding)."""
    if isinstance(m, L.UnbindRequest):
        return None
    return ber.encode(R.encode_message(A.absmsg(m, OPT)))
