"""Explicit-state search over ONE real session object (LDAPClient or LDAPServer).

A transition is a call on the real object (a deep copy of the predecessor); states are
deduplicated on (structural freeze of the session, ghost).  Monitors for C08, C09 and C10 are
evaluated on every edge.  An edge that violates any monitor is not expanded (its target lies
outside the specified behaviour) unless the violation is a listed known finding.

Ghost variables are computed only from accepted calls and delivered messages:
  traffic   has any message been successfully sent or received
  inprog    operations in progress by the documented completion rules: id -> kind | 'unk'
  issued    number of client requests issued / last id handed out
"""
from __future__ import annotations

import collections
import copy
import typing as t

import sansldap as L
from sansldap import SessionState as S

from vf import abs as A
from vf.checks import common as K
from vf.engine import par
from vf.ref import ber
from vf.ref import ldap as R

NOTICE = "1.3.6.1.4.1.1466.20036"
OPT = K.OPTS


def _res(code: t.Any = L.LDAPResultCode.SUCCESS) -> t.Any:
    return L.LDAPResult(code, "", "", None)


RESP_KINDS = ["BindResp-ok", "BindResp-sasl", "BindResp-bad", "Entry", "Ref", "Done", "ExtResp", "Notice"]
REQ_KINDS = ["BindReq", "SearchReq", "ExtReq", "Unbind"]


def make_msg(kind: str, i: int) -> t.Any:
    C = L.LDAPResultCode
    if kind == "BindResp-ok":
        return L.BindResponse(i, [], _res(), None)
    if kind == "BindResp-sasl":
        return L.BindResponse(i, [], _res(C.SASL_BIND_IN_PROGRESS), b"x")
    if kind == "BindResp-bad":
        return L.BindResponse(i, [], _res(C.INVALID_CREDENTIALS), None)
    if kind == "Entry":
        return L.SearchResultEntry(i, [], "", [])
    if kind == "Ref":
        return L.SearchResultReference(i, [], ["u"])
    if kind == "Done":
        return L.SearchResultDone(i, [], _res())
    if kind == "ExtResp":
        return L.ExtendedResponse(i, [], _res(), None, None)
    if kind == "Notice":
        return L.ExtendedResponse(i, [], _res(C.UNAVAILABLE), NOTICE, None)
    if kind == "BindReq":
        return L.BindRequest(i, [], 3, "", L.SimpleCredential(""))
    if kind == "SearchReq":
        return L.SearchRequest(i, [], "", L.SearchScope.BASE, L.DereferencingPolicy.NEVER, 0, 0, False, L.FilterPresent("a"), [])
    if kind == "ExtReq":
        return L.ExtendedRequest(i, [], "1.2", None)
    if kind == "Unbind":
        return L.UnbindRequest(i, [])
    raise KeyError(kind)


CLIENT_CALLS: t.Dict[str, t.Callable[[t.Any], t.Any]] = {
    "bind_simple": lambda c: c.bind_simple(),
    "bind_sasl": lambda c: c.bind_sasl("M", cred=b"c"),
    "search": lambda c: c.search_request(),
    "ext": lambda c: c.extended_request("1.2"),
    "unbind": lambda c: c.unbind(),
}
SERVER_CALLS: t.Dict[str, t.Callable[[t.Any, int], t.Any]] = {
    "bind_response-ok": lambda s, i: s.bind_response(i),
    "bind_response-sasl": lambda s, i: s.bind_response(i, b"x", L.LDAPResultCode.SASL_BIND_IN_PROGRESS),
    "bind_response-bad": lambda s, i: s.bind_response(i, None, L.LDAPResultCode.INVALID_CREDENTIALS),
    "ext_response": lambda s, i: s.extended_response(i),
    "notice": lambda s, i: s.extended_response(i, NOTICE),
    "entry": lambda s, i: s.search_result_entry(i, "", []),
    "ref": lambda s, i: s.search_result_reference(i, ["u"]),
    "done": lambda s, i: s.search_result_done(i),
}
GARBAGE = b"\x04\x00"

Event = t.Tuple[str, str, int]  # (kind: call|recv|garbage, name, id)


def events(role: str, kmax: int) -> t.List[Event]:
    ev: t.List[Event] = []
    if role == "client":
        ev += [("call", n, -1) for n in CLIENT_CALLS]
        for i in range(0, kmax + 2):
            ev += [("recv", n, i) for n in RESP_KINDS]
        for i in (0, 1):
            ev += [("recv", n, i) for n in REQ_KINDS]
    else:
        ev.append(("call", "unbind", -1))
        for i in range(0, kmax + 1):
            ev += [("call", n, i) for n in SERVER_CALLS]
        for i in range(0, kmax + 1):
            ev += [("recv", n, i) for n in REQ_KINDS]
        for i in (0, 1):
            ev += [("recv", n, i) for n in RESP_KINDS]
    ev.append(("garbage", "0400", -1))
    return ev


def apply_event(role: str, s: t.Any, ev: Event) -> t.Any:
    kind, name, i = ev
    if kind == "call":
        if name == "unbind":
            return s.unbind()
        if role == "client":
            return CLIENT_CALLS[name](s)
        return SERVER_CALLS[name](s, i)
    if kind == "recv":
        return s.receive(make_msg(name, i).pack(OPT))
    return s.receive(GARBAGE)


Ghost = t.Tuple[bool, t.Tuple[t.Tuple[int, str], ...], int]
G0: Ghost = (False, (), 0)


class Rec(t.NamedTuple):
    pre: t.Any
    post: t.Any
    exc: t.Optional[BaseException]
    ret: t.Any
    out: bytes


def new_session(role: str) -> t.Any:
    return L.LDAPClient() if role == "client" else L.LDAPServer()


def step(role: str, s: t.Any, g: Ghost, ev: Event, kmax: int) -> t.Tuple[t.Any, Ghost, Rec, t.List[t.Tuple[str, str, str]]]:
    """Apply ev to a copy of s.  -> (successor, ghost', record, [(property, key, what)])."""
    s2 = copy.deepcopy(s)
    pre = s.state
    exc: t.Optional[BaseException] = None
    ret = None
    try:
        ret = apply_event(role, s2, ev)
    except BaseException as e:  # noqa: BLE001 - the class is what is being checked
        exc = e
    out = s2.data_to_send()
    post = s2.state
    rec = Rec(pre, post, exc, ret, out)
    viol: t.List[t.Tuple[str, str, str]] = []
    g2 = monitors(role, g, ev, rec, viol, kmax)
    return s2, g2, rec, viol


def _first_id(out: bytes) -> t.Optional[int]:
    try:
        return R.decode_message(out, strict=False)["messageID"]
    except ber.BerError:
        return None


def monitors(role: str, g: Ghost, ev: Event, rec: Rec, viol: t.List[t.Tuple[str, str, str]], kmax: int) -> Ghost:
    kind, name, i = ev
    traffic, inprog_t, issued = g
    inprog = dict(inprog_t)
    pre, post, exc, ret, out = rec
    accepted = exc is None

    def flag(prop: str, key: str, what: str) -> None:
        viol.append((prop, key, what))

    is_call = kind == "call"
    is_recv = kind in ("recv", "garbage")
    # (g) only the library's error types
    if exc is not None:
        if is_call and not isinstance(exc, L.LDAPError):
            flag("C08", f"g-call-raises:{type(exc).__name__}:{name}", f"{name} raised {type(exc).__name__}: {exc}")
            flag("C10", f"refused-with-foreign-exception:{type(exc).__name__}:{name}", f"{name} raised {type(exc).__name__}: {exc}")
        if is_recv and not isinstance(exc, L.ProtocolError):
            flag("C08", f"g-receive-raises:{type(exc).__name__}", f"receive({name}) raised {type(exc).__name__}: {exc}")
    # C10: a refused send call leaves the outgoing stream untouched
    if is_call and not accepted and out:
        flag("C10", f"refused-call-left-bytes:{role}:{name}", f"{role} {name}({i}) was refused ({type(exc).__name__}) but {len(out)} bytes were queued: {out.hex()[:60]}")
    # (a) CLOSED is absorbing
    if pre == S.CLOSED:
        if post != S.CLOSED:
            flag("C08", f"a-closed-left:{role}:{name}", f"closed {role} moved to {post.name} on {kind} {name}")
        if accepted:
            flag("C08", f"a-closed-accepted:{role}:{kind}:{name}", f"closed {role} accepted {kind} {name}")
        if out:
            flag("C08", f"a-closed-bytes:{role}:{name}", f"closed {role} produced {len(out)} bytes on {kind} {name}")
        return g
    # (h) a refused call changes nothing visible
    if is_call and not accepted and post != pre:
        if role == "server" and pre == S.BEFORE_OPEN and post == S.OPENED and name != "unbind":
            # one call site: any refused response call on a server that has seen no traffic
            flag("C08", "h-refused-response-opens-fresh-server", f"server {name}({i}) was refused but state went BEFORE_OPEN -> OPENED")
        else:
            flag("C08", f"h-refused-call-changed-state:{role}:{name}:{pre.name}->{post.name}", f"{role} {name}({i}) was refused but state went {pre.name} -> {post.name}")
    is_bindreq = accepted and ((role == "client" and is_call and name.startswith("bind_")) or (role == "server" and kind == "recv" and name == "BindReq"))
    is_final_bindresp = accepted and (
        (role == "server" and is_call and name in ("bind_response-ok", "bind_response-bad"))
        or (role == "client" and kind == "recv" and name in ("BindResp-ok", "BindResp-bad"))
    )
    # (b) BINDING is entered exactly by an accepted bind request
    if pre != S.BINDING and post == S.BINDING and not is_bindreq:
        flag("C08", f"b-binding-without-bind-request:{role}:{name}", f"{role} entered BINDING on {kind} {name} ({'accepted' if accepted else 'refused'})")
    if is_bindreq and post != S.BINDING:
        flag("C08", f"b-bind-request-not-binding:{role}", f"{role} accepted a bind request but state is {post.name}")
    # (c) BINDING is left only by a final bind response or a termination
    if pre == S.BINDING and post not in (S.BINDING, S.CLOSED) and not is_final_bindresp:
        flag("C08", f"c-left-binding:{role}:{name}:{'accepted' if accepted else 'refused'}", f"{role} left BINDING for {post.name} on {kind} {name}")
    if pre == S.BINDING and is_final_bindresp and post != S.OPENED:
        flag("C08", f"c-final-bind-response-not-opened:{role}", f"{role} processed a final bind response but state is {post.name}")
    if pre == S.BINDING and post == S.CLOSED:
        legit = (is_call and accepted and name in ("unbind", "notice")) or (is_recv and isinstance(exc, L.ProtocolError))
        if not legit:
            flag("C08", f"c-binding-closed-without-termination:{role}:{name}", f"{role} went BINDING -> CLOSED on {kind} {name}")
    # (d) a bind cannot start while other operations are outstanding
    if is_bindreq and any(v != "unk" for v in inprog.values()):
        flag("C08", f"d-bind-with-outstanding:{role}", f"{role} accepted a bind request while {sorted(inprog.items())} were in progress")
    # (e) while BINDING only bind traffic or a termination is sent
    if pre == S.BINDING and is_call and accepted and not (name.startswith("bind_") or name in ("unbind", "notice")):
        flag("C08", f"e-sent-while-binding:{role}:{name}", f"{role} sent {name} while BINDING")
    # (f) BEFORE_OPEN is left exactly on first traffic
    got_msgs = is_recv and accepted and bool(ret)
    if (is_call and accepted or got_msgs) and post == S.BEFORE_OPEN:
        flag("C08", f"f-traffic-but-before-open:{role}:{name}", f"{role} sent/received {name} but is still BEFORE_OPEN")
    if pre == S.BEFORE_OPEN and post not in (S.BEFORE_OPEN, S.CLOSED) and not (is_call and accepted or got_msgs):
        if not (is_call and not accepted):  # that case is already reported by (h)
            flag("C08", f"f-opened-without-traffic:{role}:{name}", f"{role} left BEFORE_OPEN for {post.name} without traffic")
    # closing: unbind / notice sent, or any ProtocolError on receive
    if is_call and accepted and name in ("unbind", "notice") and post != S.CLOSED:
        flag("C08", f"term-not-closed:{role}:{name}", f"{role} sent {name} but state is {post.name}")
    if is_recv and exc is not None and post != S.CLOSED:
        flag("C08", f"error-not-closed:{role}:{type(exc).__name__}", f"{role}.receive raised {type(exc).__name__} but state is {post.name}")
    if is_recv and accepted and post == S.CLOSED:
        flag("C08", f"closed-without-error:{role}:{name}", f"{role}.receive({name}) returned normally but the session is CLOSED")

    issued2 = issued
    # ---- client ghost + C09 ----
    if role == "client":
        if is_call and accepted and name != "unbind":
            issued2 = issued + 1
            if not (type(ret) is int and ret > 0 and ret > issued):
                flag("C09", f"id-not-increasing:{name}", f"{name} returned id {ret!r} after {issued}")
            wire = _first_id(out)
            if wire != ret:
                flag("C09", f"id-on-wire-differs:{name}", f"{name} returned id {ret!r} but the emitted bytes carry id {wire!r}")
            if type(ret) is int:
                issued2 = max(issued2, ret)
                inprog[ret] = "search" if name == "search" else "bind" if name.startswith("bind_") else "ext"
        if kind == "recv":
            if name in REQ_KINDS:
                if accepted:
                    flag("C09", f"request-accepted:{name}", f"client accepted a request-type message {name}")
                elif not isinstance(exc, L.ProtocolError) or post != S.CLOSED:
                    flag("C09", f"request-not-fatal:{name}", f"client rejected {name} with {type(exc).__name__}, state {post.name}")
            elif name in RESP_KINDS and name != "Notice":
                st = inprog.get(i)
                if st != "unk":
                    expected = st is not None
                    if expected != accepted:
                        flag(
                            "C09",
                            f"response-{'rejected' if expected else 'accepted'}:{name}:{'in-progress' if expected else 'not-in-progress'}:{st}",
                            f"{name} for id {i} was {'accepted' if accepted else 'rejected'}; ghost in-progress = {dict(inprog)}",
                        )
                    if not accepted and (not isinstance(exc, L.ProtocolError) or post != S.CLOSED):
                        flag("C09", f"reject-not-fatal:{name}", f"rejected response raised {type(exc).__name__}, state {post.name}")
                if accepted:
                    if st == "search":
                        if name == "Done":
                            inprog.pop(i, None)
                        elif name not in ("Entry", "Ref"):
                            inprog[i] = "unk"  # the property does not say what a mismatched kind does to a search
                    elif st == "unk":
                        if name == "Done":  # whatever the id's status was, an accepted Done ends it
                            inprog.pop(i, None)
                    else:
                        inprog.pop(i, None)
    # ---- server ghost + C10 ----
    else:
        if kind == "recv" and accepted and name in ("BindReq", "SearchReq", "ExtReq"):
            inprog[i] = {"BindReq": "bind", "SearchReq": "search", "ExtReq": "ext"}[name]
        if is_call and name != "unbind":
            if accepted and i not in inprog:
                flag("C10", f"response-to-unknown-request-accepted:{name}", f"server sent {name} for id {i}; outstanding = {sorted(inprog)}")
            if accepted and i in inprog and out:
                wire = _first_id(out)
                if wire != i:
                    flag("C10", f"response-id-on-wire-differs:{name}", f"{name}({i}) emitted id {wire!r}")
            if accepted and name not in ("entry", "ref"):
                inprog.pop(i, None)
    if post == S.CLOSED:
        inprog = {}
    return (traffic or accepted, tuple(sorted(inprog.items())), issued2)


# ---------------------------------------------------------------------------------------
class Result:
    def __init__(self) -> None:
        self.states = 0
        self.transitions = 0
        self.validated = 0
        self.levels = 0
        self.viol: t.Dict[t.Tuple[str, str], t.Dict[str, t.Any]] = {}
        self.outcomes: t.Set[t.Any] = set()
        self.sample_paths: t.List[t.Any] = []
        self.unexpanded = 0


_X: t.Dict[str, t.Any] = {}


def _expand(chunk: t.Tuple[int, int]) -> t.List[t.Any]:
    role, kmax, evs, known = _X["role"], _X["kmax"], _X["events"], _X["known"]
    frontier = _X["frontier"]
    out = []
    for idx in range(chunk[0], chunk[1]):
        s, g, hist = frontier[idx]
        for ev in evs:
            if role == "client" and ev[0] == "call" and ev[1] != "unbind" and g[2] >= kmax:
                continue
            s2, g2, rec, viol = step(role, s, g, ev, kmax)
            outcome = (ev[0], ev[1], rec.pre.name, rec.post.name, type(rec.exc).__name__ if rec.exc else "ok", bool(rec.out))
            expand = all((p, k) in known for p, k, _w in viol)
            key = (A.freeze(s2), g2)
            out.append((idx, ev, key, s2 if expand else None, g2, viol, outcome))
    return out


def explore(role: str, kmax: int, known: t.Set[t.Tuple[str, str]], seed: int = 0, parallel: bool = False) -> Result:
    res = Result()
    evs = events(role, kmax)
    init = new_session(role)
    seen: t.Dict[t.Any, int] = {(A.freeze(init), G0): 0}
    frontier: t.List[t.Any] = [(init, G0, [])]
    res.states = 1
    # determinism: the same history replayed twice gives identical observations
    probe = [e for e in evs if e[0] == "call"][:3] + [e for e in evs if e[0] == "recv"][:3]
    assert run_history(role, probe, kmax)[1] == run_history(role, probe, kmax)[1], "replay is not deterministic"
    while frontier:
        res.levels += 1
        _X.update(role=role, kmax=kmax, events=evs, known=known, frontier=frontier)
        chunks = par.split(len(frontier), (par.ncpu() * 4) if parallel and len(frontier) > 64 else 1)
        results = par.pmap(_expand, chunks, seed) if len(chunks) > 1 else [_expand(c) for c in chunks]
        nxt: t.List[t.Any] = []
        for part in results:
            for idx, ev, key, s2, g2, viol, outcome in part:
                res.transitions += 1
                res.outcomes.add(outcome)
                hist = frontier[idx][2]
                for p, k, w in viol:
                    e = res.viol.get((p, k))
                    if e is None:
                        res.viol[(p, k)] = {"what": w, "history": hist + [ev], "count": 1}
                    else:
                        e["count"] += 1
                if s2 is None:
                    res.unexpanded += 1
                    continue
                if key not in seen:
                    seen[key] = len(seen)
                    res.states += 1
                    h2 = hist + [ev]
                    # conformance: replaying the history on a fresh object reaches the same canonical state
                    s3, _obs = run_history(role, h2, kmax)
                    if A.freeze(s3) != key[0]:
                        raise AssertionError(f"deepcopy-then-step and replay disagree after {h2}")
                    res.validated += 1
                    if len(res.sample_paths) < 6 and len(h2) >= 3:
                        res.sample_paths.append([list(e) for e in h2])
                    nxt.append((s2, g2, h2))
        frontier = nxt
    return res


def run_history(role: str, hist: t.Sequence[Event], kmax: int) -> t.Tuple[t.Any, t.List[t.Any]]:
    s = new_session(role)
    obs = []
    for ev in hist:
        exc = None
        ret = None
        try:
            ret = apply_event(role, s, tuple(ev))  # type: ignore[arg-type]
        except BaseException as e:  # noqa: BLE001
            exc = e
        out = s.data_to_send()
        obs.append((tuple(ev), type(exc).__name__ if exc else None, repr(ret)[:80] if not isinstance(ret, list) else len(ret), out.hex(), s.state.name))
    return s, obs


def replay_history(role: str, hist: t.Sequence[t.Sequence[t.Any]], kmax: int, prop: str, key: t.Optional[str]) -> t.Tuple[bool, str]:
    s = new_session(role)
    g = G0
    lines = []
    hit = False
    for raw in hist:
        ev = (raw[0], raw[1], raw[2])
        s, g, rec, viol = step(role, s, g, ev, kmax)
        lines.append(f"  {ev} -> {'raised ' + type(rec.exc).__name__ if rec.exc else 'ok'}; state {rec.pre.name} -> {rec.post.name}; {len(rec.out)} bytes out")
        for p, k, w in viol:
            if p == prop:
                lines.append(f"     !! {p} {k}: {w}")
                if key is None or k == key:
                    hit = True
    return (not hit), "\n".join(lines)


def report(ctx: t.Any, prop: str, role: str, kmax: int, res: Result) -> None:
    ctx.add("states", res.states)
    ctx.add("transitions", res.transitions)
    ctx.add("traces_validated_against_impl", res.validated)
    ctx.add(f"{role}_states_K{kmax}", res.states)
    ctx.add(f"{role}_transitions_K{kmax}", res.transitions)
    ctx.add(f"{role}_violating_edges_not_expanded", res.unexpanded)
    ctx.distinct |= {(role,) + o for o in res.outcomes}
    for (p, k), e in res.viol.items():
        if p == prop:
            ctx.violation(k, e["what"], {"role": role, "K": kmax, "history": [list(x) for x in e["history"]]}, e["count"])
    for sp in res.sample_paths[:3]:
        ctx.sample({"role": role, "history": sp})
