"""C11 -- a client and a server session interoperate under any interleaving.

Joint explicit-state BFS over (real LDAPClient, real LDAPServer, pipe c->s, pipe s->c, ghost
queues of sent-but-not-yet-received messages).  Events: any client call its session accepts;
any server response of the matching kind for a request it has received (plus notice / unbind);
delivery of the next fragment of a pipe (fragments cut at every PDU boundary and at two offsets
inside each PDU) or of everything pending at once.
"""
from __future__ import annotations

import copy
import hashlib
import typing as t

import sansldap as L
from sansldap import SessionState as S

from vf import abs as A
from vf.checks import common as K
from vf.checks.sess import NOTICE
from vf.engine import evid, par

C = L.LDAPResultCode
PA = [L.PartialAttribute("cn", [b"v", b"", b"v", b""])]  # an attribute may repeat a value on the wire: it arrives as sent
FILT = L.FilterAnd([L.FilterEquality("cn", b"a*("), L.FilterPresent("objectClass")])
CTRL = [L.PagedResultControl(True, 1000, b"ck")]

CLIENT_CALLS: t.Dict[str, t.Tuple[t.Callable[[t.Any], t.Any], t.Callable[[int], t.Any]]] = {
    "bind_simple": (lambda c: c.bind_simple("cn=a", "pw"), lambda i: L.BindRequest(i, [], 3, "cn=a", L.SimpleCredential("pw"))),
    # an empty-but-present SASL token (the first GSSAPI / EXTERNAL step) must arrive as empty, not as absent
    "bind_sasl": (lambda c: c.bind_sasl("M", cred=b""), lambda i: L.BindRequest(i, [], 3, "", L.SaslCredential("M", b""))),
    "search": (
        lambda c: c.search_request("dc=x", L.SearchScope.ONE_LEVEL, filter=FILT, attributes=["cn"], controls=CTRL),
        lambda i: L.SearchRequest(i, CTRL, "dc=x", L.SearchScope.ONE_LEVEL, L.DereferencingPolicy.NEVER, 0, 0, False, FILT, ["cn"]),
    ),
    "ext": (lambda c: c.extended_request("1.2", b"v"), lambda i: L.ExtendedRequest(i, [], "1.2", b"v")),
    "unbind": (lambda c: c.unbind(), lambda i: L.UnbindRequest(0, [])),
    # an extended operation the library knows by name (StartTLS): named operations must not change who may speak when
    "ext_tls": (lambda c: c.extended_request(TLS), lambda i: L.ExtendedRequest(i, [], TLS, None)),
    # only used by the long scenarios: a 70 000-octet value
    "ext_big": (lambda c: c.extended_request("1.2", b"V" * 70000), lambda i: L.ExtendedRequest(i, [], "1.2", b"V" * 70000)),
}


def _r(code: t.Any = C.SUCCESS, diag: str = "") -> t.Any:
    return L.LDAPResult(code, "", diag, [])


TLS = "1.3.6.1.4.1.1466.20037"
VARIANTS = False  # the second exploration adds the StartTLS-named request / response to the alphabet

SERVER_CALLS: t.Dict[str, t.Tuple[t.Callable[[t.Any, int], t.Any], t.Callable[[int], t.Any]]] = {
    "extresp_tls": (lambda s, i: s.extended_response(i, TLS), lambda i: L.ExtendedResponse(i, [], _r(), TLS, None)),
    "bind_ok": (lambda s, i: s.bind_response(i), lambda i: L.BindResponse(i, [], _r(), None)),
    "bind_bad": (
        lambda s, i: s.bind_response(i, None, C.INVALID_CREDENTIALS, diagnostics_message="no"),
        lambda i: L.BindResponse(i, [], _r(C.INVALID_CREDENTIALS, "no"), None),
    ),
    "bind_sasl": (lambda s, i: s.bind_response(i, b"", C.SASL_BIND_IN_PROGRESS), lambda i: L.BindResponse(i, [], _r(C.SASL_BIND_IN_PROGRESS), b"")),
    "entry": (lambda s, i: s.search_result_entry(i, "cn=e", PA), lambda i: L.SearchResultEntry(i, [], "cn=e", PA)),
    "ref": (lambda s, i: s.search_result_reference(i, ["ldap://u"]), lambda i: L.SearchResultReference(i, [], ["ldap://u"])),
    "done": (lambda s, i: s.search_result_done(i, controls=CTRL), lambda i: L.SearchResultDone(i, CTRL, _r())),
    "extresp": (lambda s, i: s.extended_response(i, "1.3", b"w"), lambda i: L.ExtendedResponse(i, [], _r(), "1.3", b"w")),
    "notice": (lambda s, i: s.extended_response(i, NOTICE, result_code=C.UNAVAILABLE), lambda i: L.ExtendedResponse(i, [], _r(C.UNAVAILABLE), NOTICE, None)),
    "unbind": (lambda s, i: s.unbind(), lambda i: L.UnbindRequest(0, [])),
    "entry_big": (lambda s, i: s.search_result_entry(i, "cn=big", [L.PartialAttribute("jpegPhoto", [b"J" * 90000] + [b"v%d" % k for k in range(1700)])]),
                  lambda i: L.SearchResultEntry(i, [], "cn=big", [L.PartialAttribute("jpegPhoto", [b"J" * 90000] + [b"v%d" % k for k in range(1700)])])),
    "done_code200": (lambda s, i: s.search_result_done(i, L.LDAPResultCode(200), diagnostics_message="vendor"), lambda i: L.SearchResultDone(i, [], _r(L.LDAPResultCode(200), "vendor"))),
    "extresp_code": (lambda s, i: s.extended_response(i, result_code=L.LDAPResultCode(32768)), lambda i: L.ExtendedResponse(i, [], _r(L.LDAPResultCode(32768)), None, None)),
}
REQ_KIND = {"BindRequest": "bind", "SearchRequest": "search", "ExtendedRequest": "ext"}


def frags(b: bytes, cuts: bool) -> t.List[bytes]:
    if not cuts or len(b) < 4:
        return [b]
    return [b[:2], b[2 : len(b) - 1], b[len(b) - 1 :]]


class World:
    __slots__ = ("c", "s", "c2s", "s2c", "qc2s", "qs2c", "srv_open", "issued", "sasl")

    def __init__(self) -> None:
        self.c = L.LDAPClient()
        self.s = L.LDAPServer()
        self.c2s: t.List[bytes] = []
        self.s2c: t.List[bytes] = []
        self.qc2s: t.List[t.Tuple[str, int]] = []  # ghost: (call name, id) of messages in flight
        self.qs2c: t.List[t.Tuple[str, int]] = []
        self.srv_open: t.Dict[int, t.Tuple[str, int, int]] = {}  # ghost: id -> (kind, entries, refs) the server app knows of
        self.issued = 0
        self.sasl = 0

    def key(self) -> bytes:
        k = (A.freeze(self.c), A.freeze(self.s), tuple(self.c2s), tuple(self.s2c), tuple(self.qc2s), tuple(self.qs2c),
             tuple(sorted(self.srv_open.items())), self.issued, self.sasl)  # fmt: skip
        return hashlib.blake2b(repr(k).encode(), digest_size=16).digest()


Ev = t.Tuple[t.Any, ...]


def enabled(w: World, kmax: int) -> t.List[Ev]:
    ev: t.List[Ev] = []
    if w.c.state != S.CLOSED:
        if w.issued < kmax:
            ev += [("c", "bind_simple"), ("c", "bind_sasl"), ("c", "search"), ("c", "ext")]
            if VARIANTS:
                ev.append(("c", "ext_tls"))
        ev.append(("c", "unbind"))
    if w.s.state != S.CLOSED:
        for i, (kind, ne, nr) in sorted(w.srv_open.items()):
            if kind == "bind":
                ev += [("s", "bind_ok", i), ("s", "bind_bad", i)]
                if w.sasl < 2:
                    ev.append(("s", "bind_sasl", i))
            elif kind == "search":
                if ne < 1:
                    ev.append(("s", "entry", i))
                if nr < 1:
                    ev.append(("s", "ref", i))
                ev.append(("s", "done", i))
            else:
                ev.append(("s", "extresp", i))
                if VARIANTS:
                    ev.append(("s", "extresp_tls", i))
            ev.append(("s", "notice", i))
        ev.append(("s", "unbind", 0))
        ev.append(("s", "extresp", kmax + 1))  # an attempt the session must refuse (unknown id)
    if w.c2s and w.s.state != S.CLOSED:
        ev.append(("d", "c2s", "next"))
        if len(w.c2s) > 1:
            ev.append(("d", "c2s", "all"))
        if len(w.c2s) > 2:
            ev.append(("d", "c2s", "two"))  # e.g. the tail of one PDU together with the head of the next
    if w.s2c and w.c.state != S.CLOSED:
        ev.append(("d", "s2c", "next"))
        if len(w.s2c) > 1:
            ev.append(("d", "s2c", "all"))
        if len(w.s2c) > 2:
            ev.append(("d", "s2c", "two"))
    return ev


def probes(w: World, kmax: int) -> t.List[t.Tuple[int, bool, bool]]:
    res = []
    for i in range(0, kmax + 2):
        sa = False
        for call in (SERVER_CALLS["extresp"][0], SERVER_CALLS["bind_sasl"][0], SERVER_CALLS["entry"][0]):
            sc = copy.deepcopy(w.s)
            try:
                call(sc, i)
                sa = True
                break
            except L.LDAPError:
                pass
            except BaseException:  # noqa: BLE001 - a foreign exception after queueing still means "answered"
                sa = True
                break
        cc = copy.deepcopy(w.c)
        msg = L.ExtendedResponse(i, [], _r(), None, None)
        try:
            cc.receive(msg.pack(K.OPTS))
            ca = True
        except L.ProtocolError:
            ca = False
        res.append((i, sa, ca))
    return res


def step(w: World, ev: Ev, cuts: bool, lag: int = 0) -> t.Tuple[t.Optional[World], t.Optional[t.Tuple[str, str]]]:
    """-> (successor or None if the call is not accepted (premise), violation or None).
    lag > 0: the application drains at most ``lag`` octets per send (the rest stays queued in the session)."""
    w2 = copy.deepcopy(w)
    v: t.Optional[t.Tuple[str, str]] = None
    if ev[0] == "c":
        name = ev[1]
        try:
            r = CLIENT_CALLS[name][0](w2.c)
        except L.LDAPError:
            # the application learns that the call is not accepted by trying it: the attempt happens on
            # the real session and must leave it as it was (checked observationally at quiescent states)
            if copy.deepcopy(w2.c).data_to_send() != copy.deepcopy(w.c).data_to_send():
                return w2, (f"refused-call-left-bytes:client:{name}", f"refused client call {name} changed the queued bytes")
            return w2, ("__refused__", "")
        out = w2.c.data_to_send(lag) if lag else w2.c.data_to_send()
        if name != "unbind":
            w2.issued += 1
        w2.c2s += frags(out, cuts) if not lag else ([out] if out else [])
        w2.qc2s.append((name, r if name != "unbind" else 0))
    elif ev[0] == "s":
        name, i = ev[1], ev[2]
        try:
            SERVER_CALLS[name][0](w2.s, i)
        except L.LDAPError:
            if copy.deepcopy(w2.s).data_to_send() != copy.deepcopy(w.s).data_to_send():
                return w2, (f"refused-call-left-bytes:server:{name}", f"refused server call {name} changed the queued bytes")
            return w2, ("__refused__", "")
        out = w2.s.data_to_send(lag) if lag else w2.s.data_to_send()
        w2.s2c += frags(out, cuts) if not lag else ([out] if out else [])
        w2.qs2c.append((name, i))
        if name == "bind_sasl":
            w2.sasl += 1
        if name in ("entry", "entry_big"):
            k, a, b = w2.srv_open[i]
            w2.srv_open[i] = (k, a + 1, b)
        elif name == "ref":
            k, a, b = w2.srv_open[i]
            w2.srv_open[i] = (k, a, b + 1)
        elif name in ("unbind", "notice"):
            w2.srv_open = {}
        else:
            w2.srv_open.pop(i, None)
    else:
        pipe = ev[1]
        frs = w2.c2s if pipe == "c2s" else w2.s2c
        if ev[2] == "all":
            chunk = b"".join(frs)
            del frs[:]
        elif ev[2] == "two":
            chunk = frs.pop(0) + frs.pop(0)
        else:
            chunk = frs.pop(0)
        end = w2.s if pipe == "c2s" else w2.c
        q = w2.qc2s if pipe == "c2s" else w2.qs2c
        table = CLIENT_CALLS if pipe == "c2s" else SERVER_CALLS
        try:
            msgs = end.receive(chunk)
        except L.ProtocolError as e:
            # designed terminations only: the message that terminates is the head of the queue *after*
            # any messages that the same chunk completed before it -- the library raises without
            # returning those, so the queue is searched for the first terminator.
            names = [n for n, _ in q]
            term = next((n for n in names if n in ("unbind", "notice")), None)
            if term is None:
                v = (f"unexpected-protocol-error:{pipe}", f"{'server' if pipe == 'c2s' else 'client'}.receive raised ProtocolError with only {names} in flight: {e}")
            elif term == "unbind" and not isinstance(e.request, L.UnbindRequest):
                v = (f"wrong-termination:{pipe}", f"ProtocolError {e} while an unbind was in flight")
            del frs[:]
            del q[:]
            msgs = []
        except BaseException as e:  # noqa: BLE001
            return w2, (f"receive-raises:{type(e).__name__}:{pipe}", f"receive raised {type(e).__name__}: {e}")
        for m in msgs:
            if not q:
                v = (f"message-from-nowhere:{pipe}", f"received {type(m).__name__} id {m.message_id} but nothing was in flight")
                break
            name, i = q.pop(0)
            exp = table[name][1](i)
            why = K.messages_equal(exp, m)
            if why:
                v = (f"received-differs:{pipe}:{name}:{K.strip_idx(why)}", f"sent {A.src(exp)[:120]} but received {A.src(m)[:120]} ({why})")
                break
            if pipe == "c2s":
                if type(m).__name__ not in REQ_KIND:
                    v = (f"terminator-returned:{type(m).__name__}", f"server.receive returned a {type(m).__name__} instead of raising")
                    break
                w2.srv_open[m.message_id] = (REQ_KIND[type(m).__name__], 0, 0)
    if w2.s.state == S.CLOSED:
        w2.c2s = []
        w2.qc2s = []
        w2.srv_open = {}
    if w2.c.state == S.CLOSED:
        w2.s2c = []
        w2.qs2c = []
    return w2, v


def norm(st: t.Any) -> t.Any:
    return S.OPENED if st == S.BEFORE_OPEN else st


def quiescent_check(w: World, kmax: int) -> t.Optional[t.Tuple[str, str]]:
    if w.qc2s or w.qs2c:
        return ("message-lost", f"all bytes delivered but {w.qc2s + w.qs2c} were never returned by receive")
    if norm(w.c.state) != norm(w.s.state):
        return (f"state-disagree:{w.c.state.name}/{w.s.state.name}", f"quiescent: client {w.c.state.name}, server {w.s.state.name}")
    for i, sa, ca in probes(w, kmax):
        if sa != ca:
            return (
                f"in-progress-disagree:{'server-only' if sa else 'client-only'}:{w.c.state.name}/{w.s.state.name}",
                f"quiescent: id {i} {'is' if sa else 'is not'} answerable by the server but a response for it {'is' if ca else 'is not'} accepted by the client",
            )
    return None


_X: t.Dict[str, t.Any] = {}


def _expand(chunk: t.Tuple[int, int]) -> t.List[t.Any]:
    frontier, kmax, cuts, seen, known = _X["frontier"], _X["kmax"], _X["cuts"], _X["seen"], _X["known"]
    out = []
    local: t.Set[bytes] = set()
    for idx in range(chunk[0], chunk[1]):
        w, hist = frontier[idx]
        for ev in enabled(w, kmax):
            w2, v = step(w, ev, cuts)
            if w2 is None:
                continue
            if v is not None and v[0] == "__refused__":
                v = None
                refused = True
            else:
                refused = False
            q = False
            if v is None and not w2.c2s and not w2.s2c:
                q = True
                v = quiescent_check(w2, kmax)
            key = w2.key()
            if refused and key == _X["keys"][idx]:
                continue  # a refused attempt that changed nothing: not a transition
            new = key not in seen and key not in local
            if v is not None and ("C11", v[0]) not in known:
                out.append((idx, ev, key, None, v, q))
                continue
            if new:
                local.add(key)
                out.append((idx, ev, key, w2, v, q))
            else:
                out.append((idx, ev, key, None, v, q))
    return out


STATE_CAP = {"quick": 120_000, "thorough": 1_500_000}  # > 12x / 1.5x the state count of the pinned tree: a space that has stopped closing is cut here
BATCH = 20_000


def explore(kmax: int, cuts: bool, known: t.Set[t.Tuple[str, str]], seed: int, cap: int = 1_500_000, variants: bool = False) -> t.Dict[str, t.Any]:
    global VARIANTS
    VARIANTS = variants
    w0 = World()
    seen: t.Set[bytes] = {w0.key()}
    frontier: t.List[t.Any] = [(w0, [])]
    st: t.Dict[str, t.Any] = {"states": 1, "transitions": 0, "quiescent": 0, "viol": {}, "levels": 0, "samples": [], "outcomes": set(), "capped": False}
    while frontier and not st["capped"]:
        st["levels"] += 1
        _X.update(frontier=frontier, kmax=kmax, cuts=cuts, seen=seen, known=known, keys=[w.key() for w, _h in frontier])
        nxt = []
        for b0 in range(0, len(frontier), BATCH):
            if st["states"] > cap:
                st["capped"] = True  # reported as INCOMPLETE (exhaustive = false); never a violation
                break
            b1 = min(len(frontier), b0 + BATCH)
            chunks = [(b0 + lo, b0 + hi) for lo, hi in par.split(b1 - b0, par.ncpu() * 4 if b1 - b0 > 200 else 1)]
            results = par.pmap(_expand, chunks, seed) if len(chunks) > 1 else [_expand(c) for c in chunks]
            for part in results:
                for idx, ev, key, w2, v, q in part:
                    st["transitions"] += 1
                    st["quiescent"] += 1 if q else 0
                    st["outcomes"].add((ev[0], ev[1], q))
                    hist = frontier[idx][1]
                    if v is not None:
                        e = st["viol"].get(v[0])
                        if e is None:
                            st["viol"][v[0]] = {"what": v[1], "history": hist + [list(ev)], "count": 1}
                        else:
                            e["count"] += 1
                    if w2 is not None and key not in seen:
                        seen.add(key)
                        st["states"] += 1
                        h2 = hist + [list(ev)]
                        nxt.append((w2, h2))
                        if len(st["samples"]) < 3 and len(h2) >= 8 and q:
                            st["samples"].append(h2)
        frontier = nxt
    return st


def replay_history(hist: t.List[t.List[t.Any]], kmax: int, cuts: bool) -> t.Tuple[bool, str]:
    w = World()
    lines = []
    ok = True
    for raw in hist:
        ev = tuple(raw)
        w2, v = step(w, ev, cuts)
        if w2 is None:
            lines.append(f"  {ev}: call not accepted")
            ok = False
            break
        w = w2
        if v is not None and v[0] == "__refused__":
            v = None
            lines.append(f"  {ev}: refused")
        lines.append(f"  {ev}: client {w.c.state.name} server {w.s.state.name} in-flight c2s={w.qc2s} s2c={w.qs2c}")
        if v is None and not w.c2s and not w.s2c:
            v = quiescent_check(w, kmax)
        if v:
            lines.append(f"     !! {v[0]}: {v[1]}")
            ok = False
    return ok, "\n".join(lines)


def long_scenarios() -> t.Iterator[t.Tuple[str, t.List[t.List[t.Any]]]]:
    """Beyond K requests: a few long pipelined conversations (n operations in flight, several bind cycles,
    every delivery pattern), each step judged by the same step()/quiescent_check()."""
    for n in (5, 12, 30):
        for pattern in ("next", "two", "all"):
            h: t.List[t.List[t.Any]] = []
            nxt = 1

            def flush(pipe: str, count: int) -> None:
                for _ in range(count):
                    h.append(["d", pipe, pattern if pattern != "two" else "two"])

            for cycle in range(2):
                h.append(["c", "bind_sasl" if cycle else "bind_simple"])
                bid = nxt
                nxt += 1
                h.append(["flush", "c2s"])
                if cycle:
                    h.append(["s", "bind_sasl", bid])
                    h.append(["flush", "s2c"])
                    h.append(["c", "bind_sasl"])
                    bid = nxt
                    nxt += 1
                    h.append(["flush", "c2s"])
                h.append(["s", "bind_ok", bid])
                h.append(["flush", "s2c"])
                ops = []
                for k in range(n):
                    kind = "search" if k % 3 != 2 else ("ext" if k % 4 else "ext_big")
                    h.append(["c", kind])
                    ops.append((nxt, "search" if kind == "search" else "ext"))
                    nxt += 1
                    if k % 4 == 3:
                        h.append(["d", "c2s", pattern])
                h.append(["flush", "c2s"])
                for i, kind in ops:
                    if kind == "search":
                        h.append(["s", "entry" if i % 5 else "entry_big", i])
                        if i % 2:
                            h.append(["s", "ref", i])
                order = [i for i, _k in ops]
                order = order[1::2] + order[0::2][::-1]
                for j, i in enumerate(order):
                    h.append(["s", ("done" if i % 3 else "done_code200") if dict(ops)[i] == "search" else ("extresp" if i % 2 else "extresp_code"), i])
                    if j % 5 == 4:
                        h.append(["d", "s2c", pattern])
                h.append(["flush", "s2c"])
            h.append(["c", "unbind"])
            h.append(["flush", "c2s"])
            yield f"pipeline-{n}-{pattern}", h


def backlog_scenarios() -> t.Iterator[t.Tuple[str, t.List[t.List[t.Any]]]]:
    """Calls made while earlier output is still queued in the session (the application drains 700 octets per call): what
    was accepted earlier must still arrive, whole and in order, whatever is called next -- in particular an unbind."""
    yield "backlog-then-unbind-lag700", [["c", "ext_big"], ["c", "search"], ["c", "unbind"], ["flush", "c2s"]]
    yield "backlog-bind-then-unbind-lag700", [["c", "bind_simple"], ["c", "unbind"], ["flush", "c2s"]]
    yield "server-backlog-then-notice-lag700", [["c", "search"], ["c", "ext"], ["flush", "c2s"], ["s", "entry_big", 1], ["s", "entry", 1], ["s", "notice", 2], ["flush", "s2c"]]
    yield "server-backlog-then-unbind-lag700", [["c", "search"], ["flush", "c2s"], ["s", "entry_big", 1], ["s", "done", 1], ["s", "unbind", 0], ["flush", "s2c"]]


def late_registration(ctx: evid.Ctx) -> None:
    """Both ends register an application filter type AFTER they have already exchanged a search: the next search, which
    uses it, must arrive (a type looked up through a table built on first use would not be found)."""
    from vf.checks.c19 import FFilter

    for order in ("both-late", "server-late"):
        c, s = L.LDAPClient(), L.LDAPServer()
        ctx.add("long_run_histories")
        try:
            if order == "server-late":
                c.register_filter(FFilter)
            c.search_request("dc=x", filter=L.FilterPresent("a"))
            got = s.receive(c.data_to_send())
            s.search_result_done(got[0].message_id)
            c.receive(s.data_to_send())
            if order == "both-late":
                c.register_filter(FFilter)
            s.register_filter(FFilter)
            want = L.FilterAnd([FFilter("late"), L.FilterNot(FFilter("x"))])
            c.search_request("dc=x", filter=want)
            got = s.receive(c.data_to_send())
            ctx.add("transitions", 6)
            if len(got) != 1 or got[0].filter != want:
                ctx.violation("received-differs:c2s:search:filter", f"[late registration, {order}] the server received {A.src(got[0].filter) if got else None}", {"K": 10**6, "cuts": True, "history": [], "late": order})
        except L.ProtocolError as e:
            ctx.violation("unexpected-protocol-error:c2s", f"[late registration, {order}] a search using a filter type both ends registered after their first exchange: {e}", {"K": 10**6, "cuts": True, "history": [], "late": order})


def run_long(ctx: evid.Ctx) -> None:
    late_registration(ctx)
    scen = list(long_scenarios())
    scen += [(name + "-lag700", hist) for name, hist in scen if name.startswith("pipeline-30") or name == "pipeline-12-next"]
    scen += list(backlog_scenarios())
    for name, hist in scen:
        lag = 700 if name.endswith("-lag700") else 0
        w = World()
        done: t.List[t.List[t.Any]] = []
        ctx.add("long_run_histories")
        bad = False
        for raw in hist:
            if bad:
                break
            evs: t.List[Ev] = []
            if raw[0] == "flush":
                pipe = raw[1]
                if lag:  # the application now drains what is still queued, 700 octets at a time
                    src = w.c if pipe == "c2s" else w.s
                    while True:
                        piece = src.data_to_send(lag)
                        if not piece:
                            break
                        (w.c2s if pipe == "c2s" else w.s2c).append(piece)
                # deliver until that pipe is empty, one event at a time (the pattern is chosen per event below)
                guard = 0
                while (w.c2s if pipe == "c2s" else w.s2c) and guard < 100000:
                    guard += 1
                    frs = w.c2s if pipe == "c2s" else w.s2c
                    how = "two" if ("two" in name and len(frs) > 2) else "all" if ("all" in name and len(frs) > 1) else "next"
                    ev = ("d", pipe, how)
                    w2, v = step(w, ev, True, lag)
                    done.append(list(ev))
                    ctx.add("transitions")
                    ctx.add("long_run_steps")
                    if v is None and not w2.c2s and not w2.s2c and not lag:
                        v = quiescent_check(w2, 1)
                    if v is not None and v[0] != "__refused__":
                        ctx.violation(v[0], f"[long run {name}, step {len(done)}] {v[1]}", {"K": 10**6, "cuts": True, "history": list(done)})
                        bad = True
                        break
                    w = w2
                continue
            ev = tuple(raw)
            if ev[0] == "d":
                frs = w.c2s if ev[1] == "c2s" else w.s2c
                if not frs:
                    continue
                if ev[2] == "two" and len(frs) <= 2:
                    ev = ("d", ev[1], "next")
                if ev[2] == "all" and len(frs) <= 1:
                    ev = ("d", ev[1], "next")
            w2, v = step(w, ev, True, lag)
            done.append(list(ev))
            ctx.add("transitions")
            ctx.add("long_run_steps")
            if w2 is None:
                continue
            if v is not None and v[0] == "__refused__":
                ctx.violation(f"long-run-call-refused:{ev[0]}:{ev[1]}", f"[long run {name}, step {len(done)}] {ev} was refused although the conversation allows it (client {w.c.state.name}, server {w.s.state.name})", {"K": 10**6, "cuts": True, "history": list(done)})
                bad = True
                break
            if v is None and not w2.c2s and not w2.s2c and not lag:
                v = quiescent_check(w2, 1)
            if v is not None:
                ctx.violation(v[0], f"[long run {name}, step {len(done)}] {v[1]}", {"K": 10**6, "cuts": True, "history": list(done), "lag": lag})
                bad = True
                break
            w = w2
        if lag and not bad and (w.qc2s or w.qs2c):
            ctx.violation("message-lost", f"[long run {name}] conversation over, yet {len(w.qc2s) + len(w.qs2c)} sent messages were never received", {"K": 10**6, "cuts": True, "history": list(done), "lag": lag})


def run(ctx: evid.Ctx) -> None:
    kmax = 3 if ctx.tier == "thorough" else 2
    cuts = True
    # determinism / conformance: one recorded history replays to the same verdict twice
    h = [["c", "search"], ["d", "c2s", "all"], ["s", "entry", 1], ["s", "done", 1], ["d", "s2c", "next"], ["d", "s2c", "all"]]
    a, b = replay_history(h, kmax, cuts), replay_history(h, kmax, cuts)
    assert a == b, "replay is not deterministic"
    st = explore(kmax, cuts, set(ctx.known), ctx.seed, STATE_CAP[ctx.tier])
    # the same search with the StartTLS-named extended request / response in the alphabet (K = 2)
    st2 = explore(2, cuts, set(ctx.known), ctx.seed, STATE_CAP["quick"], variants=True)
    explore.__globals__["VARIANTS"] = False
    ctx.add("states_with_named_operations", st2["states"])
    ctx.add("transitions", st2["transitions"])
    ctx.add("traces_validated_against_impl", st2["transitions"])
    ctx.distinct |= st2["outcomes"]
    for k, e in st2["viol"].items():
        ctx.violation(k, e["what"], {"K": 2, "cuts": cuts, "history": e["history"]}, e["count"])
    st["capped"] = st["capped"] or st2["capped"]
    if st["capped"]:
        ctx.exhaustive = False
        ctx.note("INCOMPLETE", f"state cap {STATE_CAP[ctx.tier]} reached after {st['levels']} levels: the joint state space did not close (sessions that differ after every event?); violations found so far are reported")
        print(f"INCOMPLETE: joint search stopped at the state cap ({st['states']} states); see evidence")
    ctx.add("states", st["states"])
    ctx.add("transitions", st["transitions"])
    ctx.add("traces_validated_against_impl", st["transitions"])
    ctx.add("quiescent_states_checked", st["quiescent"])
    ctx.add("bfs_levels", st["levels"])
    ctx.distinct |= st["outcomes"]
    for k, e in st["viol"].items():
        ctx.violation(k, e["what"], {"K": kmax, "cuts": cuts, "history": e["history"]}, e["count"])
    for s in st["samples"]:
        ctx.sample({"history": s})
    if not st["samples"]:
        ctx.sample({"history": h})
    run_long(ctx)
    ctx.counters["evaluations"] = ctx.counters.get("transitions", 0)
    ctx.rule = (
        "joint explicit-state BFS to a fixpoint over (client, server, two pipes, ghost queues); every transition runs the "
        "real objects; distinct_nontrivial counts distinct (actor, event, reaches-quiescence) classes; states are "
        "deduplicated on a 128-bit digest of the structural freeze of both sessions plus pipes and ghosts"
    )
    ctx.bounds = {"K_client_requests": kmax, "sasl_rounds": 2, "entries_per_search": 1, "refs_per_search": 1,
                  "fragments": "each PDU cut after 2 bytes and before its last byte; delivery of the next fragment or of everything pending"}  # fmt: skip
    ctx.assumptions = [
        "C02 shows all other cut positions equivalent to these; delivery to a CLOSED end is disabled (the application tears the connection down)",
        "128-bit state digests: a collision could only merge two states (miss), never raise an alarm",
    ]


def replay(case: t.Dict[str, t.Any], key: t.Optional[str] = None) -> t.Tuple[bool, str]:
    if case.get("late"):
        c = evid.Ctx("C11", "quick", 0)
        late_registration(c)
        hits = [v for k, v in c.viol.items() if key is None or k == key]
        return (not hits), "\n".join(f"  {v['key']}: {v['what']}" for v in hits) or "a filter type registered after the first exchange is used by the next search"
    return replay_history(case["history"], case["K"], case.get("cuts", True))
