"""C14 -- filter text is parsed as RFC 4515 defines it.

Enumerates derivations of the RFC 4515 grammar (bounded depth / list length / value tokens),
decorated with the tolerated space slots, and compares the library's parse with the independent
reference parser (vf/ref/filt.py); the SearchRequest bytes it then encodes must strict-decode
(vf/ref/ldap.py) to the same tree.
"""
from __future__ import annotations

import itertools
import re
import typing as t

import sansldap as L

from vf import abs as A
from vf.checks import common as K
from vf.engine import evid, par
from vf.ref import ber, filt
from vf.ref import ldap as R

ATTRS = ["cn", "2.5.4.3", "cn;lang-en", "a-b;x-1;y"]
VTOK = ["a", " ", "\\28", "\\2A", "\\2a", "\\5c", "\\00", "\\C3\\a9", "é", "=", ":", "~", "<", ">"]


def values(maxlen: int) -> t.List[str]:
    out = [""]
    for ln in range(1, maxlen + 1):
        out += ["".join(tup) for tup in itertools.product(VTOK, repeat=ln)]
    return out


def items(vmax: int) -> t.List[str]:
    V = values(vmax)
    V1 = values(1)
    NV = [v for v in V1 if v]
    out = []
    for a in ATTRS:
        out.append(f"{a}=*")
        for v in V if a == "cn" else V1:
            for op in ("=", "~=", ">=", "<="):
                out.append(f"{a}{op}{v}")
        for ini in [""] + NV[:6]:
            for fin in [""] + NV[:6]:
                for anyl in ([], ["a"], ["\\2a", " "], ["=", "a", "é"]):
                    if not ini and not fin and not anyl:
                        continue
                    out.append(f"{a}=" + "*".join([ini] + anyl + [fin]))
    for a in ["", "cn", "cn;lang-en", "2.5.4.3"]:
        for dn in ["", ":dn", ":DN", ":Dn", ":dN"]:
            for r in ["", ":caseExactMatch", ":2.4.6.8.10", ":x-1"]:
                if not a and not r:
                    continue
                for v in V1:
                    out.append(f"{a}{dn}{r}:={v}")
    return out


def decorate(nslots: int, maxdev: int) -> t.List[t.List[str]]:
    combos: t.List[t.Tuple[int, ...]] = [()]
    for d in range(1, maxdev + 1):
        combos += list(itertools.combinations(range(nslots), d))
    out = []
    for c in combos:
        for widths in itertools.product((1, 2), repeat=len(c)):
            s = [""] * nslots
            for idx, w in zip(c, widths):
                s[idx] = " " * w
            out.append(s)
    out.append([" "] * nslots)
    return out


def check_one(s: str) -> t.Optional[t.Tuple[str, str]]:
    try:
        exp = filt.parse(s, spaces=True)
    except filt.Bad as e:
        raise AssertionError(f"generator produced a string outside the grammar: {s!r}: {e}") from None
    try:
        obj = L.LDAPFilter.from_string(s)
    except BaseException as e:  # noqa: BLE001
        cls = "dn-case" if re.search(r":D[Nn]:|:dN:|:D[Nn]$|:dN$", s.split("=")[0] + ":") else "other"
        return (f"rejected:{type(e).__name__}:{exp[0]}:{cls}", f"{s!r} is RFC 4515 but was rejected: {type(e).__name__}: {e}")
    try:
        got = A.absfilter(obj)
    except (A.BadField, TypeError) as e:
        return (f"result-malformed:{type(e).__name__}", f"{s!r}: {e}")
    if got != exp:
        d = K.diff_path(exp, got)
        cls = "dn-case" if re.search(r":(D[Nn]|dN):", s) else "other"
        return (f"differs:{exp[0]}:{cls}:{K.strip_idx(d or '')}", f"{s!r} denotes {exp!r} but was parsed as {got!r}")
    req = L.SearchRequest(1, [], "", L.SearchScope.BASE, L.DereferencingPolicy.NEVER, 0, 0, False, obj, [])
    try:
        wire = R.decode_message(req.pack(K.OPTS), strict=True)["protocolOp"][1]["filter"]
    except ber.BerError as e:
        return (f"encoding-not-rfc4511:{exp[0]}", f"{s!r}: the encoded search request is not RFC 4511: {e}")
    if wire != exp:
        return (f"encoding-differs:{exp[0]}", f"{s!r}: the encoded filter decodes to {wire!r}")
    return None


_X: t.Dict[str, t.Any] = {}


_AGAIN: t.List[str] = []


def _emit(loc: evid.Local, s: str) -> None:
    loc.add("states")
    loc.add("transitions", 3)
    r = check_one(s)
    if r:
        loc.violation(r[0], r[1], {"text": s if len(s) < 4000 else None, "len": len(s)})
    if len(_AGAIN) < 400 and len(s) < 200:
        _AGAIN.append(s)


def _second_pass(loc: evid.Local) -> None:
    """The sentences parsed first in this process, parsed again after hundreds of others: what a text
    denotes must not depend on what was parsed before it."""
    for s in _AGAIN:
        loc.add("transitions", 3)
        r = check_one(s)
        if r:
            loc.violation("history-dependent:" + r[0], "[second pass] " + r[1], {"text": s, "second_pass": True})
    del _AGAIN[:]


def _work(job: t.Tuple[t.Any, ...]) -> evid.Local:
    # a library call that never returns is reported (CallDoesNotReturn), it does not hang the check
    with K.watchdog():
        return _work_cases(job)


def _work_cases(job: t.Tuple[t.Any, ...]) -> evid.Local:
    loc = evid.Local()
    fam = job[0]
    IT, small, maxdev = _X["items"], _X["small"], _X["maxdev"]
    if fam == "d0":
        decs = decorate(3, maxdev)
        for it in IT[job[1] : job[2]]:
            for sp in decs:
                _emit(loc, f"{sp[0]}({sp[1]}{it}){sp[2]}")
    elif fam == "not":
        decs = decorate(6, maxdev)
        for it in small[job[1] : job[2]]:
            for sp in decs:
                _emit(loc, f"{sp[0]}({sp[1]}!{sp[2]}({sp[3]}{it}){sp[4]}){sp[5]}")
    elif fam == "list2":
        decs = decorate(8, maxdev)
        a = small[job[1]]
        for op in "&|":
            for b in small[: _X["npair"]]:
                for sp in decs:
                    _emit(loc, f"{sp[0]}({sp[1]}{op}{sp[2]}({sp[3]}{a}){sp[4]}({sp[5]}{b}){sp[6]}){sp[7]}")
    elif fam == "list3":
        decs = decorate(10, min(maxdev, 2))
        a = small[job[1]]
        for op in "&|":
            for b, c in itertools.product(small[:6], repeat=2):
                for sp in decs:
                    _emit(loc, f"{sp[0]}({sp[1]}{op}{sp[2]}({sp[3]}{a}){sp[4]}({sp[5]}{b}){sp[6]}({sp[7]}{c}){sp[8]}){sp[9]}")
    elif fam == "d2":
        decs = decorate(9, min(maxdev, 2))
        a = small[job[1]]
        for b, c in itertools.product(small[:8], repeat=2):
            for sp in decs:
                _emit(loc, f"({sp[0]}&{sp[1]}(|{sp[2]}({a}){sp[3]}(!{sp[4]}({b}){sp[5]}){sp[6]}){sp[7]}({c}){sp[8]})")
    elif fam == "hex":
        # every two-hex-digit escape in either case of each digit, in every value position
        digits = "0123456789abcdefABCDEF"
        for h1 in digits[job[1] : job[2]]:
            for h2 in digits:
                e = f"\\{h1}{h2}"
                for s in (f"(cn={e})", f"(cn~={e}a)", f"(cn>=a{e})", f"(cn={e}*a*{e})", f"(cn=*{e}{e}*)", f"(cn:dn:2.4.6:={e})", f"(&(cn={e})(!(o<={e}{e})))"):
                    _emit(loc, s)
    elif fam == "wide":
        # filterlist = 1*filter: width is not depth
        for n in (4, 10, 100, 499, 500, 501, 1000, 3000):
            for op in "&|":
                _emit(loc, "(" + op + "".join(f"(uid=u{i})" for i in range(n)) + ")")
                _emit(loc, "(" + op + "(!(cn=x))" + "".join(f"(cn=*{i}*)" for i in range(n)) + "(o:dn:=z))")
        for depth in (2, 5, 14):
            inner = "(cn=x)"
            for _ in range(depth):
                inner = "(&" + inner * 1 + "".join(f"(sn={i})" for i in range(40)) + ")"
            _emit(loc, inner)
    elif fam == "large":
        for v in ["a" * 300, "\\2a" * 100, "\u00e9" * 120 + "\\C3\\a9", " " * 64, "=" * 33 + ":" * 33]:
            for tpl in ("(cn={v})", "(cn~={v})", "(cn={v}*{v}*{v})", "(cn:dn:2.4.6:={v})", "(&(cn={v})(!(o=*{v})))"):
                _emit(loc, tpl.format(v=v))
        inner = "(cn=a)"
        for i in range(40):
            inner = ["(!" + inner + ")", "(&" + inner + "(o=b))", "(|(sn=c)" + inner + ")"][i % 3]
            if i in (9, 10, 11, 25, 39):
                _emit(loc, inner)
                _emit(loc, " " + inner.replace("(&", "( & ").replace("(!", "(! ") + " ")
        _emit(loc, "(" + ";".join(["cn"] + ["x-%d" % i for i in range(40)]) + "=v)")
        # encodings of 64 KiB and more
        _emit(loc, "(cn=" + "v" * 70000 + ")")
        _emit(loc, "(|" + "".join("(uid=user%05d)" % i for i in range(4500)) + ")")
        _emit(loc, "(&(cn=" + "\\41" * 22000 + "*)(!(o:dn:=" + "z" * 65536 + ")))")
        _emit(loc, "(1.2." + ".".join(str(i) for i in range(60)) + ";binary>=v)")
    elif fam == "mb":
        # raw multi-byte UTF-8 earlier in the text, then items whose parts are located by offset
        pre = ["(givenName=J\u00fcrgen)", "(cn=\u00e9\u00e9\u00e9\u00e9)", "(o=\u2603*\U0001F600*)", "(cn~=\u4e2d\u6587)", "(a=\u00e9)(b=\u00e9\u00e9)"]
        post = ["(sn:caseExactMatch:=M\u00fcller)", "(cn:=abcdef)", "(:dn:2.4.6.8.10:=x)", "(cn;lang-de:dn:=y)", "(cn=a*b*c)", "(cn>=\\C3\\a9)", "(!(o:1.2.3:=\u00e9))"]
        for a in pre:
            for b in post:
                for op in "&|":
                    _emit(loc, f"({op}{a}{b})")
                    _emit(loc, f"({op}{b}{a}{b})")
                    _emit(loc, f" ( {op} {a} {b} ) ")
        # text that a Unicode normalisation (NFC / NFKC / NFD / case folding) would rewrite: RFC 4515 values are octets,
        # the UTF-8 of exactly the characters given
        odd = ["e\u0301", "A\u030a", "\u212b", "\u2126", "\u1100\u1161", "\ufb01", "\uff11", "\u00c5", "\u00df", "\u0130", "\u1e9e", "\u03a3\u03c2", "\u00a0", "\u00ad", "\u200d", "\u0958", "\U0002f800"]
        for u in odd:
            for tpl in ("(cn={u})", "(cn=a{u}*{u}b*{u})", "(cn~={u}{u})", "(cn:dn:2.4.6:={u})", "(&(o>={u})(!(cn<=x{u})))", " ( | (cn={u}) (sn=*{u}) ) "):
                _emit(loc, tpl.format(u=u))
    elif fam == "d3":
        decs = decorate(8, 1)
        a = small[job[1]]
        for b in small[:8]:
            for o1, o2 in itertools.product("&|", repeat=2):
                for sp in decs:
                    _emit(loc, f"({o1}{sp[0]}(!{sp[1]}({o2}{sp[2]}(!({a})){sp[3]}({b}){sp[4]}){sp[5]}){sp[6]}({a}){sp[7]})")
    _second_pass(loc)
    loc.distinct.add(job[:2])
    return loc


def run(ctx: evid.Ctx) -> None:
    thorough = ctx.tier == "thorough"
    vmax = 3 if thorough else 2
    maxdev = 3 if thorough else 2
    IT = items(vmax)
    # a small, diverse item set for the nested shapes: one of every item form
    small = []
    seen = set()
    for it in IT:
        form = re.sub(r"[a-z0-9.;-]+", "w", it, flags=re.I)[:12]
        if form not in seen and len(it) <= 14:
            seen.add(form)
            small.append(it)
    small = small[: (60 if thorough else 40)]
    _X.update(items=IT, small=small, maxdev=maxdev, npair=25 if thorough else 16)
    jobs: t.List[t.Tuple[t.Any, ...]] = [("d0", a, b) for a, b in par.split(len(IT), 64)]
    jobs += [("not", a, b) for a, b in par.split(len(small), 16)]
    jobs += [("list2", i) for i in range(min(len(small), _X["npair"]))]
    jobs += [("list3", i) for i in range(6)]
    jobs += [("d2", i) for i in range(8)]
    jobs += [("d3", i) for i in range(8)]
    jobs += [("hex", a, b) for a, b in par.split(22, 11)]
    jobs += [("wide", 0), ("mb", 0), ("large", 0)]
    # the RFC's own examples
    for ex in filt.RFC4515_EXAMPLES:
        r = check_one(ex)
        ctx.add("states")
        if r:
            ctx.violation(r[0], r[1], {"text": ex})
    for loc in par.pmap(_work, jobs, ctx.seed):
        evid.absorb(ctx, loc)
    ctx.counters["evaluations"] = ctx.counters.get("states", 0)
    ctx.sample({"text": " (& (cn=a\\2a ) (!  (2.5.4.3:dn:2.4.6.8.10:=é)) )"})
    ctx.sample({"text": "(cn=\\C3\\a9*a*=)"})
    ctx.sample({"items": len(IT), "small_items": small[:10]})
    ctx.rule = (
        "one case = one sentence of the RFC 4515 grammar with one assignment of the tolerated space slots; parsed by the "
        "library and by the reference parser, then encoded in a SearchRequest and strict-decoded; distinct_nontrivial counts "
        "the disjoint (family, partition) jobs"
    )
    ctx.bounds = {"value_tokens": VTOK, "value_len_tokens": vmax, "attrs": ATTRS, "space_slots_nonempty": maxdev, "items": len(IT),
                  "shapes": "(item), (!(item)), (op(item)(item)), (op(item)(item)(item)), depth 2 and depth 3 mixes"}  # fmt: skip
    ctx.assumptions = [
        "left out and said so: zero-length substring components ('a**b'), and a matching rule spelled 'dn' (ambiguous in the ABNF itself)",
        "ABNF string literals are case-insensitive (RFC 5234 2.3): ':DN' is dnattrs; RFC 4515 section 4 itself uses '(:DN:2.4.6.8.10:=Dino)'",
    ]


def replay(case: t.Dict[str, t.Any], key: t.Optional[str] = None) -> t.Tuple[bool, str]:
    r = check_one(case["text"])
    return (r is None), f"{case['text']!r}" + (f"\n  {r[0]}: {r[1]}" if r else "\n  parsed as RFC 4515 defines")
