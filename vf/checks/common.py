"""Helpers shared by the check modules."""
from __future__ import annotations

import dataclasses
import re
import typing as t

import sansldap as L
from sansldap.asn1 import ASN1Reader

from vf import abs as A

PackingOptions, unpack_ldap_message = A.lib("PackingOptions"), A.lib("unpack_ldap_message")

OPTS = PackingOptions()


class CallDoesNotReturn(BaseException):
    """Raised inside a library call that has not returned within the guard's limit (an endless loop must become a
    reported violation of whatever the call was supposed to deliver, not a check that never finishes)."""


class guard:
    """``with guard(20): library call``  -- limit in seconds of *CPU time of this process* (ITIMER_VIRTUAL), so that a busy
    machine cannot make a call look endless; main thread of the (worker) process only."""

    fired = 0  # per process; after three stalls further guarded calls are not attempted (a tree that loops would otherwise
    #            cost seconds for each of thousands of inputs)

    def __init__(self, seconds: float = 20.0) -> None:
        self.seconds = seconds

    def _fire(self, signum: int, frame: t.Any) -> None:
        guard.fired += 1
        raise CallDoesNotReturn(f"no result after {self.seconds:g} s of CPU time")

    def __enter__(self) -> "guard":
        import signal

        if guard.fired >= 3:
            raise CallDoesNotReturn("not attempted: three earlier calls in this process did not return")

        self.old = signal.signal(signal.SIGVTALRM, self._fire)
        signal.setitimer(signal.ITIMER_VIRTUAL, self.seconds)
        return self

    def __exit__(self, *exc: t.Any) -> None:
        import signal

        signal.setitimer(signal.ITIMER_VIRTUAL, 0)
        signal.signal(signal.SIGVTALRM, self.old)
UNBIND_PDU = bytes.fromhex("30050201004200")  # an independent, hand-assembled second PDU


def exc_key(e: BaseException) -> str:
    msg = re.sub(r"[0-9]+", "N", str(e))
    msg = re.sub(r"b'[^']*'|'[^']*'", "'..'", msg)
    return f"{type(e).__name__}:{msg[:60]}"


def diff_path(a: t.Any, b: t.Any, path: str = "") -> t.Optional[str]:
    """First path at which two abstract values differ (None if equal)."""
    if type(a) is not type(b):
        return f"{path}<{type(a).__name__}!={type(b).__name__}>"
    if isinstance(a, dict):
        for k in a:
            if k not in b:
                return f"{path}.{k}<missing>"
            d = diff_path(a[k], b[k], f"{path}.{k}")
            if d:
                return d
        for k in b:
            if k not in a:
                return f"{path}.{k}<extra>"
        return None
    if isinstance(a, (list, tuple)):
        if len(a) != len(b):
            return f"{path}<len {len(a)}!={len(b)}>"
        for i, (x, y) in enumerate(zip(a, b)):
            d = diff_path(x, y, f"{path}[{i}]")
            if d:
                return d
        return None
    return None if a == b else f"{path}"


def strip_idx(p: str) -> str:
    return re.sub(r"\[[0-9]+\]", "[]", p)


def unpack(data: t.Any, options: t.Any = None) -> t.Tuple[t.Any, bytes]:
    r = ASN1Reader(data)
    m = unpack_ldap_message(r, options or OPTS)
    return m, r.get_remaining_data()


def is_known_control(c: t.Any) -> bool:
    return type(c) is not L.LDAPControl


def messages_equal(orig: t.Any, dec: t.Any, options: t.Any = None) -> t.Optional[str]:
    """C01's notion of 'equal in every field': dataclass equality, except that a decoded control
    of a library-known type may additionally expose its raw value octets.  -> None or a reason."""
    options = options or OPTS
    if type(dec) is not type(orig):
        return f"class {type(dec).__name__} != {type(orig).__name__}"
    if len(dec.controls) != len(orig.controls):
        return "controls<len>"
    for i, (c1, c2) in enumerate(zip(orig.controls, dec.controls)):
        if type(c1) is not type(c2):
            return f"controls[{i}]<class {type(c2).__name__}>"
        for f in dataclasses.fields(c1):
            v1, v2 = getattr(c1, f.name), getattr(c2, f.name)
            if f.name == "value" and is_known_control(c1):
                if v2 is not None and v2 != c1.get_value(options.control):
                    return f"controls[{i}].value<raw octets differ from the encoded value>"
                if v2 is not None and type(v2) is not bytes:
                    return f"controls[{i}].value<{type(v2).__name__}>"
                continue
            if v1 != v2 or type(v1) is not type(v2):
                return f"controls[{i}].{f.name}"
    rebuilt = dataclasses.replace(dec, controls=orig.controls)
    if rebuilt != orig:
        for f in dataclasses.fields(orig):
            if getattr(rebuilt, f.name) != getattr(orig, f.name):
                return f.name
        return "?"
    try:
        a1, a2 = A.absmsg(orig, options), A.absmsg(dec, options)
    except A.NotBytes as e:
        return f"inconsistent-value:{e.tag}: {e}"
    d = diff_path(a1, a2)
    return d


class watchdog:
    """For loops over millions of cheap library calls, where a guard per call would cost more than the calls: every case
    bumps a counter (``evid.Local.add`` does), a CPU-time interval timer looks every ``period`` seconds whether the count has moved, and raises
    CallDoesNotReturn inside whatever is running once it has not moved for ``stalls`` periods in a row -- i.e. inside the one
    library call that is not returning.  The check's own ``except BaseException`` then reports it like any other failure."""

    def __init__(self, period: float = 5.0, stalls: int = 2) -> None:
        self.period, self.stalls = period, stalls
        self.last, self.idle = -1, 0

    def _fire(self, signum: int, frame: t.Any) -> None:
        from vf.engine import evid

        now = evid.BEATS[0]
        if now == self.last:
            self.idle += 1
            if self.idle >= self.stalls:
                self.idle = 0
                guard.fired += 1
                raise CallDoesNotReturn(f"no result after {self.period * self.stalls:g} s of CPU time")
        else:
            self.last, self.idle = now, 0

    def __enter__(self) -> "watchdog":
        import signal

        self.old = signal.signal(signal.SIGVTALRM, self._fire)
        signal.setitimer(signal.ITIMER_VIRTUAL, self.period, self.period)
        return self

    def __exit__(self, *exc: t.Any) -> None:
        import signal

        signal.setitimer(signal.ITIMER_VIRTUAL, 0)
        signal.signal(signal.SIGVTALRM, self.old)
