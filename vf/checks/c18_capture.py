"""Run in a separate interpreter: wrap ``re`` BEFORE sansldap is imported, drive every parser entry
point once, and print the regular expressions whose caller is a sansldap module (as JSON), so an
edited or newly added pattern is analysed automatically."""
from __future__ import annotations

import json
import os
import re
import sys

SRC = os.path.realpath(os.environ.get("VERIF_REPO_SRC", "/repo/src"))
sys.path.insert(0, SRC)
RECORD = {}
_real = {n: getattr(re, n) for n in ("compile", "match", "fullmatch", "search", "sub", "subn", "split", "findall", "finditer")}


def _caller() -> str:
    f = sys._getframe(2)
    while f is not None:
        fn = os.path.realpath(f.f_code.co_filename)
        if fn.startswith(SRC):
            return os.path.relpath(fn, SRC)
        if "/re/" not in fn and not fn.endswith("c18_capture.py"):
            return ""
        f = f.f_back
    return ""


def _note(pattern, flags, method, who):
    if not who:
        return
    if isinstance(pattern, Proxy):
        pattern, flags = pattern.pattern, pattern.flags
    elif isinstance(pattern, re.Pattern):
        pattern, flags = pattern.pattern, pattern.flags
    key = (pattern if isinstance(pattern, str) else "bytes:" + pattern.decode("latin-1"), int(flags))
    e = RECORD.setdefault(key, {"methods": set(), "callers": set()})
    e["methods"].add(method)
    e["callers"].add(who)


class Proxy:
    def __init__(self, rx, who):
        self._rx = rx
        self._who = who
        self.pattern = rx.pattern
        self.flags = rx.flags
        self.groupindex = rx.groupindex
        self.groups = rx.groups

    def __getattr__(self, name):
        attr = getattr(self._rx, name)
        if callable(attr):
            _note(self._rx, 0, name, self._who)
        return attr


def _unwrap(p):
    return p._rx if isinstance(p, Proxy) else p


def compile_(pattern, flags=0):
    who = _caller()
    rx = _real["compile"](_unwrap(pattern), flags)
    if who:
        _note(rx, 0, "compile", who)
        return Proxy(rx, who)
    return rx


def _wrap(name):
    def f(pattern, *a, **kw):
        _note(pattern, kw.get("flags", 0), name, _caller())
        return _real[name](_unwrap(pattern), *a, **kw)

    return f


re.compile = compile_
for _n in ("match", "fullmatch", "search", "sub", "subn", "split", "findall", "finditer"):
    setattr(re, _n, _wrap(_n))

import sansldap  # noqa: E402
import sansldap.schema as S  # noqa: E402

for cls, txt in (
    (S.ObjectClassDescription, "( 1.2 NAME ( 'a' 'b' ) DESC 'it\\27s' OBSOLETE SUP ( top $ x ) AUXILIARY MUST a MAY ( b $ c ) X-A 'v' X-B ( 'p' 'q' ) )"),
    (S.AttributeTypeDescription, "( 1.2 NAME 'a' DESC 'd' SUP name EQUALITY e ORDERING o SUBSTR s SYNTAX 1.3.6{64} SINGLE-VALUE COLLECTIVE NO-USER-MODIFICATION USAGE dSAOperation X-A 'v' )"),
    (S.DITContentRuleDescription, "( 1.2 NAME 'a' DESC 'd' AUX x MUST ( a $ b ) MAY c NOT d X-A ( 'v' ) )"),
):
    for s in (txt, "garbage", "( 1.2 DESC 'unterminated"):
        try:
            str(cls.from_string(s))
        except ValueError:
            pass
for s in ("(&(cn=a\\2a*b*)(!(o:dn:1.2:=x))(a>=1)(b<=2)(c~=3)(d=*))", "cn=\\zz", "(bad", "1.2.3;x-y=v"):
    try:
        str(sansldap.LDAPFilter.from_string(s))
    except ValueError:
        pass
c, srv = sansldap.LDAPClient(), sansldap.LDAPServer()
c.search_request(filter=sansldap.LDAPFilter.from_string("(cn=a)"), controls=[sansldap.PagedResultControl(True, 1, b"")])
srv.receive(c.data_to_send())
srv.search_result_done(1)
c.receive(srv.data_to_send())
try:
    srv.receive(b"\x30\x03\x02\x01")
    srv.receive(b"\xff" * 8)
except sansldap.ProtocolError:
    pass

out = []
for (pat, flags), e in RECORD.items():
    out.append({"pattern": pat, "flags": flags, "methods": sorted(e["methods"] - {"compile"}) or ["match"], "callers": sorted(e["callers"])})
print(json.dumps(out))
