"""Run in a separate interpreter: wrap ``re`` BEFORE sansldap is imported, drive every parser entry
point once, and print the regular expressions whose caller is a sansldap module (as JSON), so an
edited or newly added pattern is analysed automatically."""
from __future__ import annotations

import json
import os
import re
import sys

SRC = os.path.realpath(os.environ.get("VERIF_REPO_SRC", "/repo/src"))
sys.path.insert(0, SRC)
RECORD = {}
_real = {n: getattr(re, n) for n in ("compile", "match", "fullmatch", "search", "sub", "subn", "split", "findall", "finditer")}


def _caller() -> str:
    f = sys._getframe(2)
    while f is not None:
        fn = os.path.realpath(f.f_code.co_filename)
        if fn.startswith(SRC):
            return os.path.relpath(fn, SRC)
        if "/re/" not in fn and not fn.endswith("c18_capture.py"):
            return ""
        f = f.f_back
    return ""


def _note(pattern, flags, method, who):
    if not who:
        return
    if isinstance(pattern, Proxy):
        pattern, flags = pattern.pattern, pattern.flags
    elif isinstance(pattern, re.Pattern):
        pattern, flags = pattern.pattern, pattern.flags
    key = (pattern if isinstance(pattern, str) else "bytes:" + pattern.decode("latin-1"), int(flags))
    e = RECORD.setdefault(key, {"methods": set(), "callers": set()})
    e["methods"].add(method)
    e["callers"].add(who)


class Proxy:
    def __init__(self, rx, who):
        self._rx = rx
        self._who = who
        self.pattern = rx.pattern
        self.flags = rx.flags
        self.groupindex = rx.groupindex
        self.groups = rx.groups

    def __getattr__(self, name):
        attr = getattr(self._rx, name)
        if callable(attr):
            _note(self._rx, 0, name, self._who)
        return attr


def _unwrap(p):
    return p._rx if isinstance(p, Proxy) else p


def compile_(pattern, flags=0):
    who = _caller()
    rx = _real["compile"](_unwrap(pattern), flags)
    if who:
        _note(rx, 0, "compile", who)
        return Proxy(rx, who)
    return rx


def _wrap(name):
    def f(pattern, *a, **kw):
        _note(pattern, kw.get("flags", 0), name, _caller())
        return _real[name](_unwrap(pattern), *a, **kw)

    return f


re.compile = compile_
for _n in ("match", "fullmatch", "search", "sub", "subn", "split", "findall", "finditer"):
    setattr(re, _n, _wrap(_n))

import sansldap  # noqa: E402
import sansldap.schema as S  # noqa: E402

for cls, txt in (
    (S.ObjectClassDescription, "( 1.2 NAME ( 'a' 'b' ) DESC 'it\\27s' OBSOLETE SUP ( top $ x ) AUXILIARY MUST a MAY ( b $ c ) X-A 'v' X-B ( 'p' 'q' ) )"),
    (S.AttributeTypeDescription, "( 1.2 NAME 'a' DESC 'd' SUP name EQUALITY e ORDERING o SUBSTR s SYNTAX 1.3.6{64} SINGLE-VALUE COLLECTIVE NO-USER-MODIFICATION USAGE dSAOperation X-A 'v' )"),
    (S.DITContentRuleDescription, "( 1.2 NAME 'a' DESC 'd' AUX x MUST ( a $ b ) MAY c NOT d X-A ( 'v' ) )"),
):
    for s in (txt, "garbage", "( 1.2 DESC 'unterminated"):
        try:
            str(cls.from_string(s))
        except ValueError:
            pass
for s in ("(&(cn=a\\2a*b*)(!(o:dn:1.2:=x))(a>=1)(b<=2)(c~=3)(d=*))", "cn=\\zz", "(bad", "1.2.3;x-y=v"):
    try:
        str(sansldap.LDAPFilter.from_string(s))
    except ValueError:
        pass
c, srv = sansldap.LDAPClient(), sansldap.LDAPServer()
c.search_request(filter=sansldap.LDAPFilter.from_string("(cn=a)"), controls=[sansldap.PagedResultControl(True, 1, b"")])
srv.receive(c.data_to_send())
srv.search_result_done(1)
c.receive(srv.data_to_send())
try:
    srv.receive(b"\x30\x03\x02\x01")
    srv.receive(b"\xff" * 8)
except sansldap.ProtocolError:
    pass

# more of the API, so that patterns compiled or used lazily on less common paths are seen too: every call of both
# sessions, error and termination paths, diagnostics in the layouts LDAP products use
_R = sansldap.LDAPResult
_C = sansldap.LDAPResultCode
_DIAG = ["", "bye", "000004DC: LdapErr: DSID-0C090A5C, comment: In order to perform this operation a successful bind must be completed on the connection., data 0, v4563\x00",
         "80090308: LdapErr: DSID-0C090447, comment: AcceptSecurityContext error, data 52e, v3839", "NDS error: failed authentication (-669)", "TLS already started", "x" * 300]
for diag in _DIAG:
    for code in (_C.UNAVAILABLE, _C.PROTOCOL_ERROR, _C.SUCCESS, _C.STRONG_AUTH_REQUIRED, _C.INVALID_CREDENTIALS, _C.REFERRAL):
        for mk in (
            lambda: sansldap.ExtendedResponse(0, [], _R(code, "", diag, None), "1.3.6.1.4.1.1466.20036", None),
            lambda: sansldap.ExtendedResponse(1, [], _R(code, "dc=x", diag, ["ldap://h/dc=x"]), "1.3.6.1.4.1.1466.20037", b"v"),
            lambda: sansldap.BindResponse(1, [], _R(code, "", diag, None), b"tok"),
            lambda: sansldap.SearchResultDone(1, [sansldap.PagedResultControl(False, 0, b"ck")], _R(code, "", diag, None)),
        ):
            for role in ("client", "server"):
                x = sansldap.LDAPClient() if role == "client" else sansldap.LDAPServer()
                try:
                    if role == "client":
                        x.bind_simple("cn=a", "p") if isinstance(mk(), sansldap.BindResponse) else x.extended_request("1.3.6.1.4.1.1466.20037") if isinstance(mk(), sansldap.ExtendedResponse) else x.search_request()
                        x.data_to_send()
                    x.receive(mk().pack(sansldap.LDAPClient()._packing_options if hasattr(sansldap.LDAPClient(), "_packing_options") else None))
                except (sansldap.LDAPError, ValueError, TypeError, AttributeError):
                    pass
c2, s2 = sansldap.LDAPClient(), sansldap.LDAPServer()
for call in (lambda: c2.bind_sasl("GSSAPI", "cn=a", b"tok"), lambda: c2.unbind()):
    try:
        call()
        s2.receive(c2.data_to_send())
        s2.bind_response(1, b"srv", _C.SASL_BIND_IN_PROGRESS, "cn=a", _DIAG[2])
        c2.receive(s2.data_to_send())
    except (sansldap.LDAPError, ValueError, KeyError):
        pass
for bad in (b"\x30\x0c\x02\x01\x01\x60\x07\x02\x01\x02\x04\x00\x80\x00", b"\x16\x03\x01\x00\x10", b"GET / HTTP/1.1\r\n\r\n", b"\x30\x05\x02\x01\x01\x4a\x00", b"\x30\x84\xff\xff\xff\xff"):
    for x in (sansldap.LDAPClient(), sansldap.LDAPServer()):
        try:
            x.receive(bad)
        except sansldap.LDAPError:
            pass

out = []
for (pat, flags), e in RECORD.items():
    out.append({"pattern": pat, "flags": flags, "methods": sorted(e["methods"] - {"compile"}) or ["match"], "callers": sorted(e["callers"])})
print(json.dumps(out))
