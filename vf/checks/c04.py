"""C04 -- the decoder accepts every valid BER form of a message, not only its own.

For each base message the independent reference encoder (vf/ref/ldap.py) produces the TLV
tree; every node carries a menu of encoding freedoms a conforming peer may use:
  length form   minimal | 0x81 nn | 0x82 | 0x84 (Active Directory) | 0x85 with a leading zero
  BOOLEAN TRUE  ff | 01 | 80
  DEFAULT site  omitted | explicit FALSE            (Control.criticality, dnAttributes)
  SEQUENCE      nothing | one trailing unrecognised primitive [25] | one trailing constructed [26]
Explored: every single choice, every pair (and triple / product at thorough) -- all decoded by
the real library and compared with the message the canonical encoding denotes.
"""
from __future__ import annotations

import dataclasses
import itertools
import typing as t

import sansldap as L

from vf import abs as A
from vf import universe as U
from vf.checks import c05
from vf.checks import common as K
from vf.engine import evid, par
from vf.ref import ber
from vf.ref import ldap as R

LENFORMS = ["81", "82", "84", "85", "88"]
TRUES = [b"\x01", b"\x80"]
Choice = t.Tuple[int, str, t.Any]  # (node index, kind, option)


def build_tree(m: t.Any) -> ber.Node:
    tree = R.encode_message(A.absmsg(m, K.OPTS))
    # the paged-results control value is itself BER (RFC 2696): expose its inner tree to the variant generator
    for n in tree.walk():
        note = n.note or {}
        if note.get("kind") == "SEQ" and note.get("name") == "Control" and n.children and n.children[0].content == R.PAGED_OID:
            val = n.children[-1]
            if (val.note or {}).get("path", "").endswith("controlValue"):
                inner, end = ber.parse_one(val.content or b"", 0, True)
                pv = R.decode(R.PagedValue, inner, True)
                val.note = dict(val.note, inner=R.encode(R.PagedValue, pv, None, "pagedValue"))
    return tree


def all_nodes(tree: ber.Node) -> t.List[ber.Node]:
    out = []
    for n in tree.walk():
        out.append(n)
        inner = (n.note or {}).get("inner")
        if inner is not None:
            out += list(inner.walk())
    return out


def choices(tree: ber.Node) -> t.List[Choice]:
    out: t.List[Choice] = []
    for i, n in enumerate(all_nodes(tree)):
        body = len(ber.encode(n)) if False else None  # noqa: F841
        for f in LENFORMS:
            out.append((i, "len", f))
        note = n.note or {}
        if note.get("kind") == "BOOL" and note.get("value"):
            for tv in TRUES:
                out.append((i, "true", tv))
        if note.get("kind") == "SEQ":
            for k, _d in enumerate(note.get("defaults", [])):
                out.append((i, "default", k))
            if note.get("extensible"):
                out.append((i, "junk", "prim"))
                out.append((i, "junk", "cons"))
                out.append((i, "junk", "hightag"))  # multi-octet identifier + long-form length on the unknown element
                # unknown elements of other classes whose NUMBER coincides with a field the type does define
                # ([1] [7] [10] [11] BOOLEAN ENUMERATED): recognising a field by number alone would swallow them.
                # Not where the element could legitimately be read as one of the type's own remaining OPTIONALs.
                name = note.get("name")
                has_value = any((c.note or {}).get("path", "").endswith("controlValue") for c in n.children or [])
                if name not in ("Control", "SaslCredentials") or (name == "Control" and has_value):
                    out.append((i, "junk", "ubool"))
                    out.append((i, "junk", "uoctets"))
                out.append((i, "junk", "app7"))
                out.append((i, "junk", "priv10"))
                if name == "LDAPMessage" and not (len(n.children or []) >= 2 and n.children[1].cls == ber.APPLICATION and n.children[1].num == 24):
                    # [10] after the protocolOp is where Active Directory puts the responseName of an ExtendedResponse (the
                    # library reads it there, by design); on any other message it is just another unrecognised element
                    out.append((i, "junk", "ctx10"))
                out.append((i, "junk", "app1-11"))
                out.append((i, "junk", "many"))
                out.append((i, "junk", "twins"))
                if name == "LDAPMessage" and len(n.children or []) >= 3:
                    out.append((i, "junk", "before-controls-1"))
                    out.append((i, "junk", "before-controls-20"))
    return out


def render(tree: ber.Node, chosen: t.Sequence[Choice]) -> bytes:
    tr = tree.copy()
    # copy() shares note dicts; inner trees must be private to this rendering
    nodes = []
    for n in tr.walk():
        inner = (n.note or {}).get("inner")
        if inner is not None:
            n.note = dict(n.note, inner=inner.copy())
        nodes.append(n)
        if inner is not None:
            nodes += list(n.note["inner"].walk())
    for i, kind, opt in sorted(chosen, key=lambda c: (c[1] != "default", c[0])):
        n = nodes[i]
        if kind == "len":
            n.lenform = opt
        elif kind == "true":
            n.content = opt
        elif kind == "default":
            pos, dnode = n.note["defaults"][opt]
            # insert after the children that precede it in type order; earlier insertions shift positions
            shift = sum(1 for (j, k2, o2) in chosen if j == i and k2 == "default" and o2 < opt)
            n.children.insert(pos + shift, dnode.copy())
        elif kind == "junk":
            if opt == "prim":
                n.children.append(ber.Node(ber.CONTEXT, False, 25, b"\x01\x02"))
            elif opt == "ubool":
                n.children.append(ber.Node(ber.UNIVERSAL, False, 1, b"\xff"))
            elif opt == "uoctets":
                n.children.append(ber.Node(ber.UNIVERSAL, False, 4, b"junk"))
            elif opt == "app7":
                n.children.append(ber.Node(ber.APPLICATION, False, 7, b"abc"))
            elif opt == "priv10":
                n.children.append(ber.Node(ber.PRIVATE, False, 10, b"9.9.9"))
            elif opt == "ctx10":
                n.children.append(ber.Node(ber.CONTEXT, False, 10, b"1.3.6.1.4.1.1466.20037"))
            elif opt == "app1-11":
                n.children += [ber.Node(ber.APPLICATION, False, 1, b"q"), ber.Node(ber.PRIVATE, False, 11, b"r"), ber.Node(ber.UNIVERSAL, False, 10, b"\x05"), ber.Node(ber.APPLICATION, False, 3, b"")]
            elif opt == "many":
                n.children += [ber.Node(ber.CONTEXT, False, 40 + k, bytes([k])) for k in range(20)]
            elif opt == "twins":
                # the same unknown element more than once (two with one tag are still two unknown elements)
                n.children += [ber.Node(ber.CONTEXT, False, 27, b"t"), ber.Node(ber.CONTEXT, False, 27, b"t"), ber.Node(ber.PRIVATE, True, 12, None, []), ber.Node(ber.PRIVATE, True, 12, None, [])]
            elif opt in ("before-controls-1", "before-controls-20"):
                extra = [ber.Node(ber.CONTEXT, False, 40 + k, bytes([k])) for k in range(1 if opt.endswith("-1") else 20)]
                n.children[2:2] = extra
            elif opt == "hightag":
                # content chosen so that a mis-read length would expose bytes that parse as further elements
                inner = ber.encode(ber.Node(ber.CONTEXT, True, 0, None, [ber.Node(ber.UNIVERSAL, True, 16, None, [ber.Node(ber.UNIVERSAL, False, 4, b"9.9"), ber.Node(ber.UNIVERSAL, False, 1, b"\xff")])]))
                n.children.append(ber.Node(ber.CONTEXT, False, 1024, inner + b"\x00" * (130 - len(inner)), lenform="82"))
            else:
                n.children.append(ber.Node(ber.CONTEXT, True, 26, None, [ber.Node(ber.UNIVERSAL, False, 4, b"zz")]))

    def enc(n: ber.Node) -> bytes:
        inner = (n.note or {}).get("inner")
        if inner is not None:
            n.content = enc(inner)
        if n.children is not None:
            body = b"".join(enc(c) for c in n.children)
        else:
            body = n.content or b""
        return ber.enc_ident(n.cls, n.constructed, n.num) + ber.enc_len(len(body), n.lenform) + body

    return enc(tr)


def same_message(orig: t.Any, dec: t.Any) -> t.Optional[str]:
    """Equality of decoded value and original, with the raw octets of library-known controls left free
    (their inner value may have been re-encoded); their parsed fields are compared instead."""
    if type(orig) is not type(dec):
        return f"class {type(dec).__name__}"
    if len(orig.controls) != len(dec.controls):
        return "controls<len>"
    for i, (c1, c2) in enumerate(zip(orig.controls, dec.controls)):
        if type(c1) is not type(c2):
            return f"controls[{i}]<class>"
        for f in dataclasses.fields(c1):
            if f.name == "value" and K.is_known_control(c1):
                continue
            if getattr(c1, f.name) != getattr(c2, f.name):
                return f"controls[{i}].{f.name}"
    if dataclasses.replace(dec, controls=orig.controls) != orig:
        for f in dataclasses.fields(orig):
            if f.name != "controls" and getattr(dec, f.name) != getattr(orig, f.name):
                return f.name
        return "?"
    try:
        a1, a2 = A.absmsg(orig), A.absmsg(dec)
    except A.BadField as e:
        return f"inconsistent-value:{e.tag}"
    return K.diff_path(a1, a2)


def _cause(e: BaseException) -> str:
    import re

    m = re.search(r" for ([A-Za-z]+\.[A-Za-z.]+)", str(e))
    return f"{type(e).__name__}:{m.group(1)}" if m else K.exc_key(e)


def describe(tree: ber.Node, chosen: t.Sequence[Choice]) -> t.List[t.Any]:
    nodes = all_nodes(tree)
    return [[(nodes[i].note or {}).get("path") or (nodes[i].note or {}).get("name") or "LDAPMessage", kind, opt.hex() if isinstance(opt, bytes) else opt] for i, kind, opt in chosen]


def check_variant(m: t.Any, tree: ber.Node, chosen: t.Sequence[Choice], via_session: bool) -> t.Optional[t.Tuple[str, str]]:
    data = render(tree, chosen)
    kinds = "+".join(sorted({c[1] + (":" + str(c[2]) if c[1] in ("junk",) else "") for c in chosen}))
    where = ""
    if any(c[1] in ("junk", "default") for c in chosen):
        nodes = all_nodes(tree)
        where = ":" + "+".join(sorted({(nodes[c[0]].note or {}).get("name", "?") for c in chosen if c[1] in ("junk", "default")}))
    try:
        with K.guard(5):
            m2, rest = K.unpack(data)
    except BaseException as e:  # noqa: BLE001
        return (f"rejected:{_cause(e)}", f"valid BER form ({kinds}{where}) rejected with {type(e).__name__}: {e}  [{data.hex()[:100]}]")
    if rest:
        return (f"leftover:{kinds}", f"{len(rest)} bytes left unread")
    why = same_message(m, m2)
    if why:
        return (f"decodes-differently:{kinds}:{K.strip_idx(why)}", f"decoded value differs at {why} ({kinds}{where})  [{data.hex()[:100]}]")
    if via_session:
        if isinstance(m, L.UnbindRequest) or (isinstance(m, L.ExtendedResponse) and m.name == c05.SS.NOTICE):
            return None
        role = "server" if isinstance(m, (L.BindRequest, L.SearchRequest, L.ExtendedRequest)) else "client"
        m1 = dataclasses.replace(m, message_id=1)
        data1 = render(build_tree(m1), chosen)  # same tree shape: the id stays a one-octet INTEGER
        if role == "server":
            s = L.LDAPServer()
        else:
            s = L.LDAPClient()
            if isinstance(m, L.BindResponse):
                s.bind_simple()
            elif isinstance(m, L.ExtendedResponse):
                s.extended_request("1.2")
            else:
                s.search_request()
        try:
            with K.guard(5):
                got = s.receive(data1)
        except BaseException as e:  # noqa: BLE001
            return (f"session-rejected:{_cause(e)}", f"{role}.receive rejected a valid BER form ({kinds}{where}): {e}")
        if len(got) != 1 or same_message(m1, got[0]):
            return (f"session-decodes-differently:{kinds}", f"{role}.receive returned {len(got)} messages / a different value")
    return None


_X: t.Dict[str, t.Any] = {}


def _work(job: t.Tuple[str, int, int]) -> evid.Local:
    loc = evid.Local()
    mode, lo, hi = job
    for bi in range(lo, hi):
        m = _X["bases"][bi] if mode == "single" else _X["rich"][bi]
        try:
            tree = build_tree(m)
        except A.BadField:
            continue  # a field of the base message is itself inconsistent (reported by C01)
        # the canonical reference encoding itself must decode to m
        ch = choices(tree)
        nn = len(all_nodes(tree))
        loc.add("states")
        todo: t.Iterable[t.Sequence[Choice]]
        if mode == "single":
            todo = [()] + [(c,) for c in ch]
            uni = [tuple((i, "len", f) for i in range(nn)) for f in ("84", "82", "81", "85")]
            uni.append(tuple(c for c in ch if c[1] == "junk" and c[2] == "prim"))
            uni.append(tuple(c for c in ch if c[1] == "junk" and c[2] == "hightag"))
            uni.append(tuple(c for c in ch if c[1] == "default"))
            uni.append(tuple(c for c in ch if c[1] == "true" and c[2] == b"\x01"))
            todo = list(todo) + [u for u in uni if u]
        elif mode == "pairs":
            todo = [p for p in itertools.combinations(ch, 2) if not (p[0][0] == p[1][0] and p[0][1] == p[1][1])]
        elif mode == "triples":
            small = [c for c in ch if not (c[1] == "len" and c[2] in ("82", "85"))]
            todo = [p for p in itertools.combinations(small, 3) if len({(c[0], c[1]) for c in p}) == 3]
        else:  # product: every node min|84, every other freedom on|off
            per: t.List[t.List[t.Optional[Choice]]] = []
            for i in range(nn):
                per.append([None, (i, "len", "84")])
            for c in ch:
                if c[1] != "len" and not (c[1] == "true" and c[2] == b"\x80") and not (c[1] == "junk" and c[2] != "prim"):
                    per.append([None, c])
            todo = (tuple(c for c in combo if c is not None) for combo in itertools.product(*per))
        for chosen in todo:
            loc.add("transitions")
            r = check_variant(m, tree, chosen, via_session=(mode == "single"))
            loc.distinct.add((type(m).__name__, tuple(sorted({c[1] + str(c[2]) for c in chosen}))))
            if r:
                loc.violation(r[0], r[1], {"msg": A.src(m), "choices": [[c[0], c[1], c[2].hex() if isinstance(c[2], bytes) else c[2]] for c in chosen], "where": describe(tree, chosen)})
    return loc


def rich_bases() -> t.List[t.Any]:
    out = list(c05.base_messages())
    # values of 64 KiB and more (a peer writes their lengths with 3, 4, 5 or 8 octets)
    out.append(L.ExtendedRequest(1, [], "1.2", b"v" * 70000))
    out.append(L.SearchResultEntry(1, [], "cn=x", [L.PartialAttribute("jpegPhoto", [b"j" * 200000])]))
    for k in U.kinds():
        out.append(k.make(k.default_values()))
    return out


def run(ctx: evid.Ctx) -> None:
    thorough = ctx.tier == "thorough"
    bases = U.base_messages(U.kinds())
    rich = rich_bases()
    _X["bases"], _X["rich"] = bases, rich
    jobs: t.List[t.Tuple[str, int, int]] = [("single", a, b) for a, b in par.split(len(bases), 64)]
    trees = []
    for m in rich:
        try:
            trees.append(len(all_nodes(build_tree(m))))
        except A.BadField:
            trees.append(0)
    for i, m in enumerate(rich):
        if trees[i] <= (40 if thorough else 25):
            jobs.append(("pairs", i, i + 1))
        if thorough and trees[i] <= 25:
            jobs.append(("triples", i, i + 1))
        if trees[i] <= (11 if thorough else 9):
            jobs.append(("product", i, i + 1))
    if thorough:
        small = [i for i, m in enumerate(bases)]
        _X["rich"] = rich + bases
        off = len(rich)
        for i in small:
            jobs.append(("pairs", off + i, off + i + 1))
    for loc in par.pmap(_work, jobs, ctx.seed):
        evid.absorb(ctx, loc)
    ctx.counters["evaluations"] = ctx.counters.get("transitions", 0)
    m = rich[1]
    tr = build_tree(m)
    ctx.sample({"msg": A.src(m), "canonical": render(tr, ()).hex(), "every_length_0x84": render(tr, [(i, "len", "84") for i in range(len(all_nodes(tr)))]).hex()})
    ctx.sample({"msg": A.src(rich[6])[:200], "choices": describe(build_tree(rich[6]), choices(build_tree(rich[6]))[-3:])})
    ctx.note("base_messages_single", len(bases))
    ctx.note("base_messages_pairs", sum(1 for j in jobs if j[0] == "pairs"))
    ctx.note("base_messages_product", sum(1 for j in jobs if j[0] == "product"))
    ctx.rule = (
        "one case = one assignment of encoding freedoms to the nodes of one base message's reference TLV tree, rendered to "
        "bytes and decoded by the library; distinct_nontrivial counts distinct (message kind, set of freedoms used)"
    )
    ctx.bounds = {"length_forms": ["min"] + LENFORMS, "true_octets": ["ff", "01", "80"], "trailing": ["[25] primitive", "[26] constructed", "[1024] primitive, 0x82 length", "UNIVERSAL BOOLEAN / OCTET STRING / ENUMERATED", "[APPLICATION 1/3/7]", "[PRIVATE 10/11]"],
                  "singles_on": "full(2)+dev(1) of U", "pairs_on": "rich + default messages with <= %d nodes%s" % (40 if thorough else 25, " and every full(2)+dev(1) message" if thorough else ""),
                  "product_on": "messages with <= %d nodes (lengths min|0x84 x every other freedom on|off)" % (11 if thorough else 9)}  # fmt: skip
    ctx.assumptions = [
        "RFC 4511 section 4 (EXTENSIBILITY IMPLIED): every SEQUENCE of the LDAP module may carry trailing unrecognised components; "
        "RFC 2696's realSearchControlValue may not",
        "octet strings stay primitive and lengths definite (RFC 4511 section 5.1)",
    ]


def replay(case: t.Dict[str, t.Any], key: t.Optional[str] = None) -> t.Tuple[bool, str]:
    m = A.unsrc(case["msg"])
    tree = build_tree(m)
    chosen = [(c[0], c[1], bytes.fromhex(c[2]) if c[1] == "true" else c[2]) for c in case["choices"]]
    r = check_variant(m, tree, chosen, via_session=True)
    txt = f"{case['msg'][:200]}\n  freedoms: {describe(tree, chosen)}\n  bytes: {render(tree, chosen).hex()[:200]}"
    return (r is None), txt + (f"\n  {r[0]}: {r[1]}" if r else "\n  decodes to the same message")
