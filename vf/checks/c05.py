"""C05 -- receiving arbitrary bytes either yields messages or fails closed.

Fault-sequence enumeration on the real sessions: (1) all short byte strings, (2) every
single-byte replacement / truncation of base messages, (3) every TLV-node mutation of base
messages, (4) filter nesting to every depth -- each under several chunkings and from several
prior session states.  Oracle: receive returns a list or raises ProtocolError; after the error
the session is CLOSED, refuses input and sends, and e.response (when present) is a well-formed
notice of disconnection (server) / unbind (client) per the strict reference decoder.
"""
from __future__ import annotations

import copy
import itertools
import typing as t

import sansldap as L
from sansldap import SessionState as S

from vf.checks import common as K
from vf.checks import sess as SS
from vf.engine import evid, par
from vf.ref import ber, bermut
from vf.ref import ldap as R

STRUCT = bytes.fromhex("000102040 50a303142606378 7f808184a0ff".replace(" ", ""))
assert len(STRUCT) == 18
STRUCT12 = bytes.fromhex("000102043042606380 81a0ff".replace(" ", ""))  # quick tier, length 5
assert len(STRUCT12) == 12

C = L.LDAPResultCode
RES = L.LDAPResult(C.REFERRAL, "dn", "msg", ["u1"])


def base_messages() -> t.List[t.Any]:
    rich = [
        L.BindRequest(1, [L.LDAPControl("1.2", True, b"v"), L.PagedResultControl(False, 5, b"ck")], 3, "n", L.SaslCredential("M", b"c")),
        L.BindRequest(1, [], 3, "n", L.SimpleCredential("p")),
        L.BindRequest(1, [], 3, "", L.SaslCredential("M", None)),
        L.BindRequest(1, [], 2, "cn=v2", L.SimpleCredential("p")),  # an LDAPv2 bind: a message like any other to the session
        L.BindResponse(1, [], RES, b"s"),
        L.BindResponse(1, [], L.LDAPResult(C.SASL_BIND_IN_PROGRESS, "", "", None), b"x"),
        L.UnbindRequest(1, []),
        L.SearchRequest(
            1, [L.ShowDeletedControl(True)], "b", L.SearchScope.ONE_LEVEL, L.DereferencingPolicy.ALWAYS, 7, 9, True,
            L.FilterAnd([L.FilterOr([L.FilterNot(L.FilterEquality("a", b"v"))]), L.FilterSubstrings("a", b"i", [b"x", b"y"], b"f"),
                         L.FilterGreaterOrEqual("a", b"1"), L.FilterLessOrEqual("a", b"2"), L.FilterPresent("p"), L.FilterApproxMatch("a", b"3"),
                         L.FilterExtensibleMatch("r", "t", b"v", True)]),
            ["x", "y"],
        ),
        L.SearchRequest(2, [L.PagedResultControl(True, 100, b"")], "", L.SearchScope.BASE, L.DereferencingPolicy.NEVER, 0, 0, False, L.FilterPresent("objectClass"), []),
        L.SearchResultEntry(1, [], "o", [L.PartialAttribute("a", [b"1", b"2"]), L.PartialAttribute("b", [])]),
        L.SearchResultDone(1, [L.PagedResultControl(False, 0, b"cookie")], RES),
        L.SearchResultReference(1, [], ["u", "v"]),
        L.ExtendedRequest(2, [], "1.2", b"v"),
        L.ExtendedRequest(1, [], "1.3.6.1.4.1.1466.20037", None),
        L.ExtendedResponse(2, [], RES, "1.3", b"w"),
        L.ExtendedResponse(0, [], L.LDAPResult(C.UNAVAILABLE, "", "bye", None), SS.NOTICE, None),
        L.ExtendedResponse(1, [], L.LDAPResult(C.SUCCESS, "", "", None), None, None),
    ]  # fmt: skip
    return rich


STATES: t.Dict[str, t.List[t.Tuple[str, t.List[SS.Event]]]] = {
    "server": [
        ("fresh", []),
        ("binding", [("recv", "BindReq", 1)]),
        ("open-outstanding", [("recv", "SearchReq", 1), ("recv", "ExtReq", 2)]),
    ],
    "client": [
        ("fresh", []),
        ("binding", [("call", "bind_simple", -1)]),
        ("open-outstanding", [("call", "search", -1), ("call", "ext", -1)]),
    ],
}
_TEMPLATES: t.Dict[t.Tuple[str, str], t.Any] = {}


def make_session(role: str, state: str) -> t.Any:
    if state == "fresh":
        return SS.new_session(role)
    tpl = _TEMPLATES.get((role, state))
    if tpl is None:
        tpl = SS.new_session(role)
        if state == "open-limited":
            # a client whose search asked for at most one entry (what the server then sends is the server's business)
            if role == "client":
                tpl.search_request(size_limit=1, time_limit=1, controls=[L.PagedResultControl(False, 1, b"")])
                tpl.extended_request("1.2")
            else:
                SS.apply_event(role, tpl, ("recv", "SearchReq-lim1", 1))
                SS.apply_event(role, tpl, ("recv", "ExtReq", 2))
            tpl.data_to_send()
        elif state == "pending-output":
            # OPENED, operations outstanding, and accepted output the application has only partly drained
            if role == "client":
                tpl.search_request()
                tpl.extended_request("1.2")
            else:
                SS.apply_event(role, tpl, ("recv", "SearchReq", 1))
                SS.apply_event(role, tpl, ("recv", "ExtReq", 2))
                tpl.search_result_entry(1, "cn=e", [])
            tpl.data_to_send(3)
        else:
            for ev in dict(STATES[role])[state]:
                SS.apply_event(role, tpl, ev)
            tpl.data_to_send()
        _TEMPLATES[(role, state)] = tpl
    return copy.deepcopy(tpl)


CLOSED_SENDS = {
    "client": [lambda c: c.bind_simple(), lambda c: c.search_request(), lambda c: c.extended_request("1.2"), lambda c: c.unbind()],
    "server": [lambda s: s.bind_response(1), lambda s: s.extended_response(1), lambda s: s.search_result_entry(1, "", []),
               lambda s: s.search_result_done(1), lambda s: s.extended_response(1, SS.NOTICE), lambda s: s.unbind()],
}  # fmt: skip


def check_response(role: str, e: t.Any) -> t.Optional[t.Tuple[str, str]]:
    resp = e.response
    if resp is None:
        return None
    if type(resp) is not bytes:
        return (f"response-type:{role}", f"ProtocolError.response is {type(resp).__name__}")
    try:
        v = R.decode_message(resp, strict=True)
    except ber.BerError as x:
        return (f"response-malformed:{role}:{resp.hex() if len(resp) <= 12 else K.exc_key(x)}", f"ProtocolError.response {resp.hex()[:60]} is not well-formed RFC 4511: {x}")
    op = v["protocolOp"]
    if role == "server":  # (decode_message already insists on exactly one PDU with nothing before or after it)
        if not (op[0] == "extendedResp" and v["messageID"] == 0 and op[1]["responseName"] == R.NOTICE_OID):
            return ("response-not-notice:server", f"server error notification is {op[0]} id {v['messageID']} name {op[1].get('responseName') if isinstance(op[1], dict) else None}")
    else:
        if op[0] != "unbindRequest":
            return ("response-not-unbind:client", f"client error notification is {op[0]}")
    return None


def check_closed(role: str, s: t.Any) -> t.Optional[t.Tuple[str, str]]:
    if s.state is not S.CLOSED:
        return (f"not-closed-after-error:{role}", f"state is {s.state.name} after ProtocolError")
    for probe in (b"", K.UNBIND_PDU):
        try:
            s.receive(probe)
        except L.ProtocolError:
            pass
        except BaseException as x:  # noqa: BLE001
            return (f"closed-receive-raises:{type(x).__name__}", f"receive on the closed session raised {type(x).__name__}")
        else:
            return (f"closed-accepts-input:{role}", "receive on the closed session returned normally")
    s.data_to_send()
    for call in CLOSED_SENDS[role]:
        try:
            call(s)
        except L.LDAPError:
            pass
        except BaseException as x:  # noqa: BLE001
            return (f"closed-send-raises:{type(x).__name__}:{role}", f"a send call on the closed session raised {type(x).__name__}: {x}")
        else:
            return (f"closed-send-accepted:{role}", "a send call on the closed session was accepted")
        if s.data_to_send():
            return (f"closed-send-bytes:{role}", "a refused send call on the closed session queued bytes")
        if s.state is not S.CLOSED:
            return (f"closed-left:{role}", f"a send call moved the closed session to {s.state.name}")
    return None


def feed(role: str, state: str, chunks: t.Sequence[bytes], deep: bool) -> t.Tuple[t.List[t.Tuple[str, str]], str]:
    """Deliver chunks in order.  -> (violations, outcome class)."""
    s = make_session(role, state)
    nmsg = 0
    for ch in chunks:
        try:
            r = s.receive(ch)
        except L.ProtocolError as e:
            vs = []
            v = check_response(role, e)
            if v:
                vs.append(v)
            if s.state is not S.CLOSED:
                vs.append((f"not-closed-after-error:{role}", f"state is {s.state.name} after ProtocolError: {e}"))
            elif deep:
                v = check_closed(role, s)
                if v:
                    vs.append(v)
            return vs, "error:" + K.exc_key(e)[:40]
        except BaseException as e:  # noqa: BLE001
            return [(f"receive-raises:{type(e).__name__}", f"{role}.receive raised {type(e).__name__}: {e}")], "foreign"
        if type(r) is not list:
            return [("receive-returns-non-list", f"receive returned {type(r).__name__}")], "foreign"
        nmsg += len(r)
    return [], f"ok:{nmsg}"


def chunkings(data: bytes, mode: str) -> t.Iterator[t.Tuple[str, t.List[bytes]]]:
    yield "whole", [data]
    if len(data) > 1:
        yield "bytewise", [data[i : i + 1] for i in range(len(data))]
    if mode == "splits":
        for i in range(1, len(data)):
            yield f"split@{i}", [data[:i], data[i:]]


_X: t.Dict[str, t.Any] = {}


def _run_input(loc: evid.Local, data: bytes, fam: str, roles: t.Sequence[str], states: t.Sequence[str], mode: str, deep: bool, desc: t.Any) -> None:
    for role in roles:
        for state in states:
            for cname, chunks in chunkings(data, mode):
                loc.add("transitions", len(chunks))
                try:
                    with K.guard(10 + len(data) // 5000):
                        vs, outcome = feed(role, state, chunks, deep)
                except K.CallDoesNotReturn as e:
                    vs, outcome = [(f"receive-does-not-return:{role}", f"{role}.receive: {e}")], "foreign"
                loc.distinct.add((fam, role, state, outcome if not outcome.startswith("error") else outcome[:30]))
                for v in vs:
                    loc.violation(v[0], v[1] + f"  [input {data.hex()[:80]}{'..' if len(data) > 40 else ''}, {role}/{state}/{cname}]", {"role": role, "state": state, "chunks": [c.hex() for c in chunks] if len(chunks) < 80 else None, "data": data.hex() if len(data) < 4000 else None, "gen": desc, "chunking": cname})
    loc.add("states")


def _work(job: t.Tuple[t.Any, ...]) -> evid.Local:
    import time

    t0 = time.time()
    loc = _work1(job)
    loc.add(f"cpu_ms_{job[0]}", int((time.time() - t0) * 1000))
    return loc


def _work1(job: t.Tuple[t.Any, ...]) -> evid.Local:
    loc = evid.Local()
    fam = job[0]
    if fam == "all256":
        ln, first = job[1], job[2]
        for rest in itertools.product(range(256), repeat=ln - 1):
            data = bytes((first,) + rest)
            _run_input(loc, data, fam, ("server", "client"), ("fresh", "binding", "open-outstanding") if ln <= 2 else ("fresh",), "bytewise", ln <= 2, {"fam": fam})
    elif fam == "struct":
        ln, first, states = job[1], job[2], job[3]
        alpha = STRUCT if (ln <= 4 or _X["thorough"]) else STRUCT12
        if first not in alpha:
            return loc
        for rest in itertools.product(alpha, repeat=ln - 1):
            data = bytes((first,) + rest)
            _run_input(loc, data, fam, ("server", "client") if ln <= 4 else ("server",), states, "bytewise" if ln <= 4 or _X["thorough"] else "whole", False, {"fam": fam})
    elif fam == "replace":
        bi, lo, hi = job[1], job[2], job[3]
        b = _X["bases"][bi]
        for i in range(lo, hi):
            for v in range(256):
                if v != b[i]:
                    _run_input(loc, b[:i] + bytes([v]) + b[i + 1 :], fam, ("server", "client"), ("fresh", "open-outstanding") if _X["thorough"] else ("open-outstanding",), "whole", True, {"fam": fam, "base": bi, "pos": i, "value": v})
    elif fam == "valid":
        # the base messages themselves, from every prior state incl. one with undrained output
        for bi, b in list(enumerate(_X["bases"]))[job[1] : job[1] + 1]:
            _run_input(loc, b, fam, ("server", "client"), ("fresh", "binding", "open-outstanding", "pending-output"), "splits", True, {"fam": fam, "base": bi})
            _run_input(loc, b + b, fam, ("server", "client"), ("open-outstanding", "pending-output"), "bytewise", True, {"fam": fam, "base": bi, "twice": True})
    elif fam == "stream":
        # long VALID streams in fixed-size reads that never end on a PDU boundary (tens of KiB consumed while a
        # partial message is always pending), and single messages far larger than any buffer threshold
        role = job[1]
        one = (L.ExtendedRequest(3, [], "1.2", b"v" * 29) if role == "server" else L.SearchResultEntry(1, [], "cn=e", [L.PartialAttribute("a", [b"v" * 21])])).pack(K.OPTS)
        data = one * 4000
        for size in (997, 331, 4099, 9973, 1460, 65536 + 7):  # mostly primes: reads (almost) never end on a PDU boundary
            chunks = [data[p : p + size] for p in range(0, len(data), size)]
            loc.add("transitions", len(chunks))
            vs, outcome = feed(role, "open-outstanding", chunks, False)
            if outcome != "ok:4000" and not vs:
                vs = [(f"long-stream-outcome:{role}", f"4000 valid PDUs in {size}-octet reads: outcome {outcome}")]
            for v in vs:
                loc.violation(v[0], v[1] + f" [4000 PDUs of {len(one)} octets in reads of {size}]", {"role": role, "state": "open-outstanding", "stream": {"pdu": one.hex(), "count": 4000, "read": size}})
        bigm = (L.ExtendedRequest(3, [], "1.2", b"v" * 400000) if role == "server" else L.SearchResultEntry(1, [], "cn=e", [L.PartialAttribute("jpegPhoto", [b"v" * 350000])])).pack(K.OPTS)
        for size in (65536, 16384, 262144):
            chunks = [bigm[p : p + size] for p in range(0, len(bigm), size)]
            loc.add("transitions", len(chunks))
            vs, outcome = feed(role, "open-outstanding", chunks, True)
            if outcome != "ok:1" and not vs:
                vs = [(f"large-message-outcome:{role}", f"a {len(bigm)}-octet message in {size}-octet reads: outcome {outcome}")]
            for v in vs:
                loc.violation(v[0], v[1], {"role": role, "state": "open-outstanding", "stream": {"big": len(bigm), "read": size}})
        # a header announcing far more than will ever come: the session may wait or fail closed, nothing else
        for hdr in (b"\x30\x84\x00\x06\x00\x00", b"\x30\x84\x7f\xff\xff\xff", b"\x30\x88" + b"\x00" * 3 + b"\x01" + b"\x00" * 4):
            chunks = [hdr] + [b"\x04" * 65536] * 6
            loc.add("transitions", len(chunks))
            vs, outcome = feed(role, "fresh", chunks, True)
            for v in vs:
                loc.violation(v[0], v[1] + f" [header {hdr.hex()} then 384 KiB]", {"role": role, "state": "fresh", "stream": {"hdr": hdr.hex()}})
        loc.add("states", 11)
    elif fam == "truncate":
        bi = job[1]
        b = _X["bases"][bi]
        for i in range(len(b)):
            _run_input(loc, b[:i], fam, ("server", "client"), ("fresh", "binding", "open-outstanding"), "bytewise", True, {"fam": fam, "base": bi, "keep": i})
            _run_input(loc, b[:i] + b"\xff" * 3, fam, ("server", "client"), ("pending-output",), "whole", True, {"fam": fam, "base": bi, "keep": i, "junk": True})
    elif fam == "nodes":
        bi, mode = job[1], job[2]
        b = _X["bases"][bi]
        for label, idx, data in bermut.mutants(b):
            _run_input(loc, data, fam, ("server", "client"), ("fresh", "binding", "open-outstanding"), mode, True, {"fam": fam, "base": bi, "node": idx, "mutation": label})
    elif fam == "node-pairs":
        bi = job[1]
        b = _X["bases"][bi]
        for l1, i1, d1 in bermut.mutants(b, _X["pair_menu"]):
            try:
                second = list(bermut.mutants(d1, _X["pair_menu"]))
            except (ber.BerError, AssertionError):
                continue
            for l2, i2, d2 in second:
                if (i2, l2) <= (i1, l1):
                    continue
                _run_input(loc, d2, fam, ("server",) if _X["roles_of"][bi] == "server" else ("client",), ("open-outstanding",), "whole", False, {"fam": fam, "base": bi, "mutations": [[i1, l1], [i2, l2]]})
    elif fam == "bigint":
        # every INTEGER / ENUMERATED of every base message replaced by contents of 1 800 and 4 000 octets
        # (4 300+ / 9 600+ decimal digits: beyond what the interpreter converts to text by default)
        bi = job[1]
        b = _X["bases"][bi]
        tree, _end = ber.parse_one(b, 0, strict=False)
        nodes = list(tree.walk())
        for idx, n in enumerate(nodes):
            if n.cls == ber.UNIVERSAL and n.num in (2, 10) and n.children is None:
                for content in (b"\x7f" + b"\xff" * 1799, b"\x80" + b"\x00" * 1799, b"\x01" + b"\x23" * 3999):
                    tr = tree.copy()
                    list(tr.walk())[idx].content = content
                    _run_input(loc, ber.encode(tr), fam, ("server", "client"), ("fresh", "binding", "open-outstanding"), "whole", True, {"fam": fam, "base": bi, "node": idx, "octets": len(content)})
    elif fam == "states":
        # every reachable state of the single-session search (vf/checks/sess.py) x every delivery of its alphabet:
        # receive must return or raise ProtocolError from EVERY state, not only from the three representatives
        role, kk = job[1], job[2]
        res = SS.explore(role, kk, _X["known_all"], 0, parallel=False, prop="C05", cap=6000)
        if res.capped:
            loc.add("states_family_search_cut_at_cap")
        loc.add("states", res.states)
        loc.add("transitions", res.transitions)
        for (p, k), e in res.viol.items():
            if p == "C05":
                loc.violation(k, e["what"], {"role": role, "K": kk, "history": [list(x) for x in e["history"]]}, e["count"])
        loc.distinct.add(("states", role, res.states))
    elif fam == "nest":
        tagb, lo, hi, stepn, form = job[1], job[2], job[3], job[4], job[5]
        for depth in range(lo, hi, stepn):
            data = nested_search(tagb, depth, form)
            _run_input(loc, data, fam, ("server",), ("fresh",), "bytewise" if depth % 97 == 0 else "whole", depth % 50 == 0, {"fam": fam, "tag": tagb, "depth": depth, "form": form})
    return loc


def nested_search(tagb: int, depth: int, form: str = "min") -> bytes:
    """SearchRequest whose filter is `depth` nested not/and/or elements, built iteratively."""
    inner = b"\x87\x01a"
    for _ in range(depth):
        inner = bytes([tagb]) + ber.enc_len(len(inner), form) + inner
    body = b"\x04\x00\x0a\x01\x00\x0a\x01\x00\x02\x01\x00\x02\x01\x00\x01\x01\x00" + inner + b"\x30\x00"
    op = b"\x63" + ber.enc_len(len(body)) + body
    msg = b"\x02\x01\x01" + op
    return b"\x30" + ber.enc_len(len(msg)) + msg


def run(ctx: evid.Ctx) -> None:
    thorough = ctx.tier == "thorough"
    bases = [m.pack(K.OPTS) for m in base_messages()]
    _X["bases"] = bases
    _X["thorough"] = thorough
    _X["roles_of"] = ["server" if isinstance(m, (L.BindRequest, L.SearchRequest, L.ExtendedRequest, L.UnbindRequest)) else "client" for m in base_messages()]
    _X["pair_menu"] = ["len-1", "len+1", "empty", "delete", "class+1", "pc-flip", "truncate-1"]
    jobs: t.List[t.Tuple[t.Any, ...]] = []
    for ln in (1, 2, 3) if thorough else (1, 2):
        jobs += [("all256", ln, first) for first in range(256)]
    smax = 6 if thorough else 5
    for ln in range(1, smax + 1):
        states = ("fresh", "binding", "open-outstanding") if ln <= 4 else ("fresh",)
        jobs += [("struct", ln, first, states) for first in STRUCT]
    for bi, b in enumerate(bases):
        for lo, hi in par.split(len(b), max(1, len(b) // 8)):
            jobs.append(("replace", bi, lo, hi))
        jobs.append(("truncate", bi))
        jobs.append(("bigint", bi))
        jobs.append(("nodes", bi, "splits" if (thorough or len(b) <= 48) else "bytewise"))
        if thorough:
            jobs.append(("node-pairs", bi))
    _X["known_all"] = set(ctx.known)
    jobs += [("states", "client", 3 if thorough else 2), ("states", "server", 2 if thorough else 1)] + [("valid", i) for i in range(len(bases))] + [("stream", "server"), ("stream", "client")]
    nstep = 1 if thorough else 25
    for tagb in (0xA2, 0xA0, 0xA1):
        for form in ("min", "84"):
            dense = 1 if thorough or (tagb == 0xA2 and form == "min") else 7
            jobs += [("nest", tagb, 1 + lo, 1 + hi, dense, form) for lo, hi in par.split(700, 14)]
            jobs += [("nest", tagb, 701 + lo, 701 + hi, nstep, form) for lo, hi in par.split(2300, 16)]
    jobs.sort(key=lambda j: 0 if j[0] == "states" else 1)
    for loc in par.pmap(_work, jobs, 0):
        evid.absorb(ctx, loc)
    if ctx.counters.get("states_family_search_cut_at_cap"):
        ctx.exhaustive = False
        ctx.note("INCOMPLETE", "the single-session state search behind the 'states' family did not close and was cut at 6000 states; every other family is complete")
        print("INCOMPLETE: the 'states' family search stopped at the state cap; see evidence")
    ctx.counters["evaluations"] = ctx.counters.get("transitions", 0)
    ctx.counters["traces_validated_against_impl"] = ctx.counters.get("transitions", 0)
    ctx.note("base_messages", len(bases))
    ctx.sample({"fam": "struct", "data": "3004020042 00".replace(" ", "")})
    ctx.sample({"fam": "nodes", "base": bases[1].hex(), "mutation": "len-1 on node 1"})
    ctx.sample({"fam": "nest", "depth": 500, "data_prefix": nested_search(0xA2, 500)[:40].hex()})
    ctx.rule = (
        "one case = one byte string delivered to a real session in one chunking from one prior state; every receive call is "
        "a transition; distinct_nontrivial counts distinct (family, role, prior state, outcome class) where the outcome class "
        "is ok:<messages returned> or the normalised ProtocolError text"
    )
    ctx.bounds = {
        "all_byte_strings_up_to": 3 if thorough else 2,
        "structural_alphabet_strings_up_to": smax,
        "structural_alphabet_note": "length 5 at quick uses the 12-byte subset " + STRUCT12.hex(),
        "structural_alphabet": STRUCT.hex(),
        "base_messages": len(bases),
        "node_mutation_menu": bermut.MENU,
        "node_pairs": thorough,
        "nesting_depths": "not/minimal lengths: every depth 1..700 then every %d up to 3000; {and, or} and 0x84 lengths: every %d-th depth up to 700, then every %d" % (nstep, 1 if thorough else 7, nstep),
        "prior_states": {r: [s for s, _ in STATES[r]] for r in STATES},
        "chunkings": "whole, byte-at-a-time; every 2-split for node mutations of messages <= 48 bytes (all at thorough)",
        "huge_integers": "every INTEGER/ENUMERATED node of every base message with 1 800 / 4 000 content octets",
        "all_reachable_states": "the single-session search of vf/checks/sess.py (client K=2, server K=1; thorough 3 / 2): every delivery from every reachable state",
    }
    ctx.assumptions = [
        "prior states are 3 representatives per role (fresh, BINDING, OPENED with outstanding search+extended); decoding is "
        "state-independent, what a decoded message does in every reachable state is C08/C09's search",
        "interpreter recursion limit at its default (1000)",
    ]


def replay(case: t.Dict[str, t.Any], key: t.Optional[str] = None) -> t.Tuple[bool, str]:
    if "stream" in case:
        loc = evid.Local()
        _X.setdefault("bases", [m.pack(K.OPTS) for m in base_messages()])
        _X.setdefault("thorough", False)
        r = _work1(("stream", case["role"]))
        hits = [e for k, e in r.viol.items() if key is None or k == key]
        return (not hits), "\n".join("  " + e["what"] for e in hits) or "long streams and large messages are handled"
    if "history" in case:
        return SS.replay_history(case["role"], case["history"], case["K"], "C05", key)
    if case.get("chunks"):
        chunks = [bytes.fromhex(c) for c in case["chunks"]]
    elif case.get("data"):
        data = bytes.fromhex(case["data"])
        chunks = [data] if case.get("chunking") == "whole" else [data[i : i + 1] for i in range(len(data))]
    else:
        g = case["gen"]
        data = nested_search(g["tag"], g["depth"], g["form"])
        chunks = [data] if case.get("chunking") == "whole" else [data[i : i + 1] for i in range(len(data))]
    vs, outcome = feed(case["role"], case["state"], chunks, True)
    vs = [v for v in vs if key is None or v[0] == key]
    txt = f"{case['role']} in state {case['state']}, {len(chunks)} chunk(s), {sum(map(len, chunks))} bytes -> {outcome}"
    if vs:
        return False, txt + "".join(f"\n  {v[0]}: {v[1]}" for v in vs)
    return True, txt
