"""Deterministic cost measure: bytecode instructions executed inside a package (sys.monitoring,
Python 3.12+).  INSTRUCTION events are enabled only on the package's own code objects, so the
count does not depend on the harness, and a budget turns non-termination into a finding."""
from __future__ import annotations

import signal
import sys
import types
import typing as t

TOOL = 4  # a free tool id (0..5); 4 is not one of the predefined debugger/coverage/profiler/optimizer ids


class BudgetExceeded(BaseException):
    pass


class WallLimit(BaseException):
    pass


def _on_alarm(signum: int, frame: t.Any) -> None:
    raise WallLimit()


class Counter:
    def __init__(self, modules: t.Sequence[types.ModuleType]) -> None:
        self.count = 0
        self.budget = 10**9
        self.codes: t.List[types.CodeType] = []
        seen: t.Set[int] = set()

        def add_code(co: types.CodeType) -> None:
            if id(co) in seen:
                return
            seen.add(id(co))
            self.codes.append(co)
            for c in co.co_consts:
                if isinstance(c, types.CodeType):
                    add_code(c)

        files = {getattr(m, "__file__", None) for m in modules}
        for m in modules:
            for obj in list(vars(m).values()):
                self._collect(obj, files, add_code, 0)
        mon = sys.monitoring
        mon.use_tool_id(TOOL, "vf-icount")
        mon.register_callback(TOOL, mon.events.INSTRUCTION, self._cb)
        for co in self.codes:
            mon.set_local_events(TOOL, co, mon.events.INSTRUCTION)

    def _collect(self, obj: t.Any, files: t.Set[t.Any], add_code: t.Callable[[types.CodeType], None], depth: int) -> None:
        if isinstance(obj, (types.FunctionType,)):
            if obj.__code__.co_filename in files:
                add_code(obj.__code__)
        elif isinstance(obj, (classmethod, staticmethod)):
            self._collect(obj.__func__, files, add_code, depth)
        elif isinstance(obj, property):
            for f in (obj.fget, obj.fset, obj.fdel):
                if f is not None:
                    self._collect(f, files, add_code, depth)
        elif isinstance(obj, type) and depth < 2:
            for v in list(vars(obj).values()):
                self._collect(v, files, add_code, depth + 1)

    def _cb(self, code: types.CodeType, offset: int) -> None:
        self.count += 1
        if self.count > self.budget:
            raise BudgetExceeded()

    def measure(self, fn: t.Callable[[], t.Any], budget: int, wall_s: float = 0.0) -> t.Tuple[int, t.Optional[str]]:
        """-> (instructions, outcome) where outcome is None, an exception class name, 'BUDGET', or 'WALL'.

        ``wall_s`` is a backstop for time spent where instructions are not counted (the regex engine, which
        polls for signals): it is three orders of magnitude above any polynomial case and never decides a
        pass, it only keeps an exponential regex from hanging the run (and is then reported)."""
        self.count = 0
        self.budget = budget
        old = None
        if wall_s:
            old = signal.signal(signal.SIGVTALRM, _on_alarm)
            signal.setitimer(signal.ITIMER_VIRTUAL, wall_s)
        try:
            fn()
            out = None
        except BudgetExceeded:
            out = "BUDGET"
        except WallLimit:
            out = "WALL"
        except BaseException as e:  # noqa: BLE001
            out = type(e).__name__
        finally:
            if wall_s:
                signal.setitimer(signal.ITIMER_VIRTUAL, 0)
                signal.signal(signal.SIGVTALRM, old)
        self.budget = 10**12
        return self.count, out

    def close(self) -> None:
        mon = sys.monitoring
        for co in self.codes:
            mon.set_local_events(TOOL, co, 0)
        mon.register_callback(TOOL, mon.events.INSTRUCTION, None)
        mon.free_tool_id(TOOL)
