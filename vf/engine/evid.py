"""Run context: counters, violations, known findings, evidence and replay files.

One ``Ctx`` per check run.  Checks call ``ctx.violation(key, what, case)`` for
every failing case; the context keeps the *first* (= smallest, enumerations are
simplest-first) witness per finding key and a count.  At the end ``finish``
prints ``KNOWN-FINDING`` / ``VIOLATION`` lines, writes the evidence file and
returns the exit code.  ``known_findings.json`` is only ever read.
"""
from __future__ import annotations

import hashlib
import json
import os
import re
import time
import typing as t

ROOT = os.path.dirname(os.path.dirname(os.path.dirname(os.path.abspath(__file__))))
# VERIF_OUT redirects evidence/replays (used when the checks are pointed at a scratch copy of the library,
# so that the committed evidence only ever comes from runs against /repo itself)
_OUT = os.environ.get("VERIF_OUT") or ROOT
EVIDENCE_DIR = os.path.join(_OUT, "evidence")
REPLAY_DIR = os.path.join(_OUT, "replays")
KNOWN_FILE = os.path.join(ROOT, "known_findings.json")


def jsonable(o: t.Any) -> t.Any:
    """Lossy-but-readable conversion used for samples / replay files."""
    if isinstance(o, (str, int, float, bool)) or o is None:
        return o
    if isinstance(o, (bytes, bytearray, memoryview)):
        return {"hex": bytes(o).hex()}
    if isinstance(o, dict):
        return {str(k): jsonable(v) for k, v in o.items()}
    if isinstance(o, (list, tuple)):
        return [jsonable(x) for x in o]
    if isinstance(o, (set, frozenset)):
        return sorted((jsonable(x) for x in o), key=repr)
    return repr(o)


def unjson(o: t.Any) -> t.Any:
    if isinstance(o, dict):
        if set(o) == {"hex"}:
            return bytes.fromhex(o["hex"])
        return {k: unjson(v) for k, v in o.items()}
    if isinstance(o, list):
        return [unjson(x) for x in o]
    return o


def load_known() -> t.Dict[str, t.Dict[str, t.Any]]:
    """key -> entry for entries with status == 'known' (fixed entries suppress nothing)."""
    if not os.path.exists(KNOWN_FILE):
        return {}
    with open(KNOWN_FILE) as fh:
        data = json.load(fh)
    out = {}
    for e in data.get("findings", []):
        if e.get("status") == "known":
            out[(e["property"], e["key"])] = e
    return out


class Ctx:
    def __init__(self, prop: str, tier: str, seed: int) -> None:
        self.prop = prop
        self.tier = tier
        self.seed = seed
        self.t0 = time.time()
        self.counters: t.Dict[str, int] = {}
        self.distinct: t.Set[t.Any] = set()
        self.distinct_extra = 0
        self.samples: t.List[t.Any] = []
        self.notes: t.Dict[str, t.Any] = {}
        self.viol: t.Dict[str, t.Dict[str, t.Any]] = {}
        self.assumptions: t.List[str] = []
        self.rule = ""
        self.exhaustive = True
        self.bounds: t.Dict[str, t.Any] = {}
        self.known = load_known()

    # ---- counters -------------------------------------------------------
    def add(self, name: str, n: int = 1) -> None:
        self.counters[name] = self.counters.get(name, 0) + n

    def merge_counters(self, c: t.Dict[str, int]) -> None:
        for k, v in c.items():
            self.add(k, v)

    def sample(self, x: t.Any, cap: int = 12) -> None:
        if len(self.samples) < cap:
            self.samples.append(jsonable(x))

    def note(self, k: str, v: t.Any) -> None:
        self.notes[k] = jsonable(v)

    # ---- violations -----------------------------------------------------
    def violation(self, key: str, what: str, case: t.Any, count: int = 1) -> None:
        e = self.viol.get(key)
        if e is None:
            self.viol[key] = {"key": key, "what": what, "case": jsonable(case), "count": count}
        else:
            e["count"] += count

    def merge_violations(self, vs: t.Dict[str, t.Dict[str, t.Any]]) -> None:
        for k, e in vs.items():
            cur = self.viol.get(k)
            if cur is None:
                self.viol[k] = dict(e)
            else:
                cur["count"] += e["count"]
                # keep the smallest witness (enumerations are simplest-first inside a job, not across jobs)
                if len(json.dumps(e["case"])) < len(json.dumps(cur["case"])):
                    cur["case"], cur["what"] = e["case"], e["what"]

    def is_known(self, key: str) -> bool:
        return (self.prop, key) in self.known

    # ---- finish ----------------------------------------------------------
    def finish(self, level: str = "model_checking") -> int:
        os.makedirs(EVIDENCE_DIR, exist_ok=True)
        unknown = []
        known_hit = []
        for key in sorted(self.viol):
            e = self.viol[key]
            if self.is_known(key):
                known_hit.append(e)
            else:
                unknown.append(e)
        for e in known_hit:
            print(f"KNOWN-FINDING: property={self.prop} {e['key']}: {e['what']} (x{e['count']})")
        rc = 0
        if unknown:
            os.makedirs(REPLAY_DIR, exist_ok=True)
            rc = 1
            for e in unknown:
                slug = re.sub(r"[^A-Za-z0-9_.-]+", "_", e["key"])[:80]
                h = hashlib.sha1(e["key"].encode()).hexdigest()[:8]
                path = os.path.join(REPLAY_DIR, f"{self.prop}-{slug}-{h}.json")
                with open(path, "w") as fh:
                    json.dump({"property": self.prop, "key": e["key"], "what": e["what"], "count": e["count"], "case": e["case"]}, fh, indent=1)
                print(f"  {self.prop} {e['key']}: {e['what']} (x{e['count']})")
                print(f"VIOLATION property={self.prop} replay={path}")
        cov: t.Dict[str, t.Any] = {}
        c = dict(self.counters)
        cov["states"] = int(c.pop("states", 0))
        cov["transitions"] = int(c.pop("transitions", 0))
        cov["traces_validated_against_impl"] = int(c.pop("traces_validated_against_impl", cov["transitions"]))
        cov["evaluations"] = int(c.pop("evaluations", cov["transitions"]))
        cov["distinct_nontrivial"] = len(self.distinct) + self.distinct_extra
        cov["rule"] = self.rule
        cov["samples"] = self.samples or ["(no sample recorded)"]
        cov["exhaustive"] = bool(self.exhaustive)
        cov["bounds"] = jsonable(self.bounds)
        cov["counters"] = c
        cov["known_findings_seen"] = [e["key"] for e in known_hit]
        cov["violation_keys"] = [e["key"] for e in unknown]
        cov.update(self.notes)
        ev = {
            "property_id": self.prop,
            "tier": self.tier,
            "seed": self.seed,
            "level": level,
            "coverage": cov,
            "assumptions": self.assumptions,
            "wall_s": round(time.time() - self.t0, 2),
            "violations": len(unknown),
        }
        with open(os.path.join(EVIDENCE_DIR, f"{self.prop}.json"), "w") as fh:
            json.dump(ev, fh, indent=1, sort_keys=False)
        print(
            f"{self.prop} tier={self.tier} seed={self.seed} states={cov['states']} transitions={cov['transitions']} "
            f"evaluations={cov['evaluations']} distinct={cov['distinct_nontrivial']} known={len(known_hit)} "
            f"violations={len(unknown)} wall={ev['wall_s']}s"
        )
        return rc


BEATS = [0]  # bumped by every Local.add: the heartbeat read by vf.checks.common.watchdog


class Local:
    """A picklable mini-context used inside worker processes, merged by ``Ctx.absorb``."""

    def __init__(self) -> None:
        self.counters: t.Dict[str, int] = {}
        self.viol: t.Dict[str, t.Dict[str, t.Any]] = {}
        self.distinct: t.Set[t.Any] = set()
        self.samples: t.List[t.Any] = []

    def add(self, name: str, n: int = 1) -> None:
        self.counters[name] = self.counters.get(name, 0) + n
        BEATS[0] += 1

    def sample(self, x: t.Any, cap: int = 4) -> None:
        if len(self.samples) < cap:
            self.samples.append(jsonable(x))

    def violation(self, key: str, what: str, case: t.Any, count: int = 1) -> None:
        e = self.viol.get(key)
        if e is None:
            self.viol[key] = {"key": key, "what": what, "case": jsonable(case), "count": count}
        else:
            e["count"] += count


def absorb(ctx: Ctx, loc: Local) -> None:
    ctx.merge_counters(loc.counters)
    ctx.merge_violations(loc.viol)
    ctx.distinct |= loc.distinct
    for s in loc.samples:
        ctx.sample(s)
