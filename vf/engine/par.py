"""Deterministic fork-based partitioning over the available cores.

``pmap(fn, jobs)`` runs ``fn(job)`` for every job in a pool of forked workers and
returns the results in job order.  Jobs are index ranges or small descriptors,
never random draws, so coverage is identical for every seed; ``VERIF_SEED`` only
rotates the order in which jobs are handed out.
"""
from __future__ import annotations

import multiprocessing as mp
import os
import typing as t

T = t.TypeVar("T")
R = t.TypeVar("R")


def ncpu() -> int:
    try:
        n = len(os.sched_getaffinity(0))
    except Exception:  # pragma: no cover
        n = os.cpu_count() or 1
    env = os.environ.get("VERIF_WORKERS")
    if env:
        n = max(1, int(env))
    return max(1, min(n, 16))


_FN: t.Optional[t.Callable[[t.Any], t.Any]] = None


def _call(ij: t.Tuple[int, t.Any]) -> t.Tuple[int, t.Any]:
    assert _FN is not None
    return ij[0], _FN(ij[1])


def pmap(fn: t.Callable[[T], R], jobs: t.Sequence[T], seed: int = 0, workers: t.Optional[int] = None) -> t.List[R]:
    global _FN
    jobs = list(jobs)
    n = workers or ncpu()
    if n <= 1 or len(jobs) <= 1:
        return [fn(j) for j in jobs]
    order = list(range(len(jobs)))
    if seed and jobs:
        k = seed % len(jobs)
        order = order[k:] + order[:k]
    _FN = fn
    ctx = mp.get_context("fork")
    out: t.List[t.Any] = [None] * len(jobs)
    with ctx.Pool(min(n, len(jobs))) as pool:
        for i, r in pool.imap_unordered(_call, [(i, jobs[i]) for i in order], chunksize=1):
            out[i] = r
    _FN = None
    return out


def split(n: int, parts: int) -> t.List[t.Tuple[int, int]]:
    """[lo, hi) ranges covering range(n) in ``parts`` nearly equal pieces."""
    parts = max(1, min(parts, n)) if n else 1
    out = []
    for p in range(parts):
        lo = n * p // parts
        hi = n * (p + 1) // parts
        if hi > lo:
            out.append((lo, hi))
    return out
