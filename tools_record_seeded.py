#!/venv/bin/python
"""usage: tools_record_seeded.py <wave-dir-glob> ...   e.g. /tmp/wt/C*/MUT
For every mut<ID>_<k>.diff + demo<ID>_<k>.py: confirm it in a scratch worktree (suite still passes, demo passes on
the clean tree and fails with the change), run the primary check (and extra ones given in EXTRA) against it, and
store patch, demo and meta.json under /verif/seeded/<ID>_<k>/."""
import glob, json, os, re, subprocess, sys, shutil

EXTRA = {"C01": ["C03"], "C03": ["C01"], "C07": ["C01"], "C02": ["C06", "C19"], "C06": ["C02"], "C05": ["C08"], "C08": ["C11"], "C09": ["C08"],
         "C10": ["C12"], "C11": ["C09"], "C12": ["C10"], "C13": ["C14"], "C14": ["C13"], "C16": ["C17"], "C17": ["C16"]}
props = {json.loads(l)["id"]: json.loads(l) for l in open("/verif/properties.jsonl")}

def sh(cmd, **kw):
    return subprocess.run(cmd, shell=True, capture_output=True, text=True, **kw)

def main():
    tag = sys.argv[1]
    for d in sys.argv[2:]:
        for diff in sorted(glob.glob(os.path.join(d, "mut*_*.diff"))):
            m = re.search(r"mut(C\d\d)_(\w+)\.diff$", diff)
            pid, k = m.group(1), m.group(2)
            name = f"{pid}_{tag}{k}"
            demo = os.path.join(d, f"demo{pid}_{k}.py")
            wt = f"/tmp/ev/{name}"
            sh(f"git -C /repo worktree remove --force {wt}")
            os.makedirs("/tmp/ev", exist_ok=True)
            assert sh(f"git -C /repo worktree add -q --detach {wt} HEAD").returncode == 0
            clean = sh(f"cd {wt} && PYTHONPATH=src timeout 300 /venv/bin/python {demo}").returncode
            ap = sh(f"cd {wt} && git apply {diff}")
            if ap.returncode != 0:
                print(name, "patch does not apply", ap.stderr[:200]); sh(f"git -C /repo worktree remove --force {wt}"); continue
            tests = sh(f"cd {wt} && PYTHONPATH=src /venv/bin/python -m pytest -q -p no:cacheprovider 2>&1 | tail -1").stdout.strip()
            mut = sh(f"cd {wt} && PYTHONPATH=src timeout 600 /venv/bin/python {demo}").returncode
            results = {}
            for c in [pid] + EXTRA.get(pid, []):
                out = f"/tmp/ev/out/{name}"
                shutil.rmtree(out, ignore_errors=True); os.makedirs(out)
                r = sh(f"cd /verif && VERIF_REPO_SRC={wt}/src VERIF_OUT={out} timeout 3000 /venv/bin/python -m vf.run {c} --tier quick")
                keys = []
                for f in sorted(glob.glob(out + "/replays/*.json")):
                    keys.append(json.load(open(f))["key"])
                results[c] = {"exit": r.returncode, "violations": len(keys), "keys": keys[:4]}
            sh(f"git -C /repo worktree remove --force {wt}")
            valid = "413 passed" in tests and clean == 0 and mut != 0
            dst = f"/verif/seeded/{name}"
            os.makedirs(dst, exist_ok=True)
            shutil.copy(diff, dst + "/patch.diff"); shutil.copy(demo, dst + "/demo.py")
            notes = ""
            np_ = os.path.join(d, "NOTES.md")
            if os.path.exists(np_):
                txt = open(np_).read()
                secs = re.split(r"\n(?=#+ )", txt)
                sec = [s for s in secs if re.search(rf"(mut{pid}_{k}\b|[Mm]utant {k}\b|[Mm]utation {k}\b)", s[:200])]
                notes = (sec[0] if sec else "")[:3000]
            meta = {
                "id": name, "breaks_property": pid, "property_title": props[pid]["title"],
                "origin": "written by a fresh sub-agent that saw only the property text and its own scratch worktree of /repo (nothing from /verif)",
                "what_it_needs_to_manifest": notes.strip() or "see demo.py",
                "confirmed": {"existing_suite_with_change": tests, "demo_exit_on_clean_tree": clean, "demo_exit_with_change": mut, "valid_seeded_change": valid,
                              "how": "scratch worktree of /repo HEAD under /tmp/ev; git apply patch.diff; PYTHONPATH=src /venv/bin/python -m pytest -q -p no:cacheprovider; PYTHONPATH=src /venv/bin/python demo.py"},
                "checks_run_against_it": results,
                "detected_by": sorted(c for c, r in results.items() if r["exit"] == 1),
                "how_checks_were_run": "VERIF_REPO_SRC=<worktree>/src VERIF_OUT=<scratch> python -m vf.run <Cnn> --tier quick (same code path as the registered command, library path redirected)",
            }
            json.dump(meta, open(dst + "/meta.json", "w"), indent=1)
            print(name, "valid" if valid else "INVALID", tests, "| detected by", meta["detected_by"], "| primary:", results[pid]["exit"], results[pid]["keys"][:1], flush=True)

main()
