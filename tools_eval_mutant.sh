#!/bin/sh
# usage: tools_eval_mutant.sh <diff> <demo.py> <tag> "<check ids>"
# Applies <diff> to a scratch worktree of /repo, confirms (tests still pass, demo OK on clean / fails on mutant),
# then runs the listed checks against the mutant (evidence/replays go to /tmp/ev/out/<tag>).
diff=$1; demo=$2; tag=$3; checks=$4
wt=/tmp/ev/$tag; out=/tmp/ev/out/$tag
rm -rf $out; mkdir -p /tmp/ev/out $out
git -C /repo worktree remove --force $wt 2>/dev/null
git -C /repo worktree add -q --detach $wt HEAD || exit 3
cd $wt
clean=$(PYTHONPATH=src timeout 120 /venv/bin/python $demo >/dev/null 2>&1; echo $?)
git apply $diff || { echo "$tag APPLY-FAILED"; git -C /repo worktree remove --force $wt; exit 3; }
tests=$(PYTHONPATH=src /venv/bin/python -m pytest -q -p no:cacheprovider 2>&1 | tail -1)
mut=$(PYTHONPATH=src timeout 300 /venv/bin/python $demo >/dev/null 2>&1; echo $?)
echo "$tag  tests: $tests | demo clean rc=$clean mutant rc=$mut"
for c in $checks; do
  res=$(cd /verif && VERIF_REPO_SRC=$wt/src VERIF_OUT=$out timeout 1500 /venv/bin/python -m vf.run $c --tier ${TIER:-quick} 2>&1)
  rc=$?
  nv=$(echo "$res" | grep -c "^VIOLATION")
  first=$(echo "$res" | grep -B1 "^VIOLATION" | grep -v "^VIOLATION" | grep -v "^--" | head -2 | cut -c1-220)
  echo "   $c rc=$rc violations=$nv"; [ -n "$first" ] && echo "$first" | sed 's/^/        /'
  [ $rc -eq 2 ] && echo "$res" | tail -5 | sed 's/^/        !! /'
done
cd /; git -C /repo worktree remove --force $wt
