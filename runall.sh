#!/bin/sh
# usage: ./runall.sh [quick|thorough] [ids...]   -- runs checks, prints one line each; exit 1 if any fails
tier=${1:-quick}; shift 2>/dev/null
ids=${@:-C01 C02 C03 C04 C05 C06 C07 C08 C09 C10 C11 C12 C13 C14 C15 C16 C17 C18 C19}
rc=0
for c in $ids; do
  out=$(/venv/bin/python -m vf.run $c --tier $tier 2>&1); r=$?
  echo "$out" | grep -E "^(VIOLATION|KNOWN-FINDING|HARNESS)" | cut -c1-200
  echo "$out" | tail -1 | cut -c1-200; echo "   exit=$r"
  [ $r -ne 0 ] && rc=1
done
python3-vt - <<'PY'
import json,glob,jsonschema
sch=json.load(open('/root/.vp/EVIDENCE.schema.json'))
for f in sorted(glob.glob('/verif/evidence/*.json')):
    try: jsonschema.validate(json.load(open(f)),sch)
    except Exception as e: print("EVIDENCE INVALID",f,str(e)[:200])
print("evidence files validated")
PY
exit $rc
