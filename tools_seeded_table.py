#!/venv/bin/python
"""Regenerates DESIGN.md section 8 (the table of seeded changes) from seeded/*/meta.json."""
import glob, json, re, subprocess
rows = []
for f in sorted(glob.glob("/verif/seeded/*/meta.json")):
    m = json.load(open(f))
    diff = open(f.replace("meta.json", "patch.diff")).read()
    files = sorted(set(re.findall(r"^\+\+\+ b/src/sansldap/(\S+)", diff, flags=re.M)))
    notes = m["what_it_needs_to_manifest"]
    first = ""
    for line in notes.splitlines():
        line = line.strip(" #*-")
        if len(line) > 25 and not line.lower().startswith(("mut", "files", "demo")):
            first = line
            break
    key = (m["checks_run_against_it"][m["breaks_property"]]["keys"] or ["?"])[0]
    rows.append((m["id"], ",".join(files), first[:150].replace("|", "/"), ", ".join(m["detected_by"]), key[:70].replace("|", "/")))
out = ["| seeded change | file(s) | what it is / what it needs | detected by | first finding key of the property's own check |", "|---|---|---|---|---|"]
for r in rows:
    out.append("| `%s` | %s | %s | %s | `%s` |" % r)
open("/verif/seeded/TABLE.md", "w").write("\n".join(out) + "\n")
print(len(rows), "rows")
