#!/bin/sh
# usage: tools_eval_benign.sh <diff> <tag> ["<check ids>"]
# Applies a property-PRESERVING change to a scratch worktree of /repo, confirms the suite still passes, then runs the
# listed checks (default: all 19, quick tier) against it.  Any non-zero exit / VIOLATION / INCOMPLETE is printed: on a
# change under which the properties hold, each of them would be a false alarm (or lost coverage) of the machinery.
diff=$1; tag=$2; checks=${3:-C01 C02 C03 C04 C05 C06 C07 C08 C09 C10 C11 C12 C13 C14 C15 C16 C17 C18 C19}
wt=/tmp/ev/$tag; out=/tmp/ev/out/$tag
rm -rf $out; mkdir -p /tmp/ev/out $out
git -C /repo worktree remove --force $wt 2>/dev/null
for try in 1 2 3 4 5; do git -C /repo worktree add -q --detach $wt HEAD 2>/dev/null && break; sleep 2; done
[ -d $wt/src ] || { echo "$tag WORKTREE-FAILED"; exit 3; }
cd $wt
git apply $diff 2>/dev/null || git apply --3way $diff || { echo "$tag APPLY-FAILED"; cd /; git -C /repo worktree remove --force $wt; exit 3; }
tests=$(PYTHONPATH=src /venv/bin/python -m pytest -q -p no:cacheprovider 2>&1 | tail -1)
echo "$tag  tests: $tests"
bad=0
for c in $checks; do
  res=$(cd ${VERIF_DIR:-/verif} && VERIF_REPO_SRC=$wt/src VERIF_OUT=$out timeout 3000 /venv/bin/python -m vf.run $c --tier ${TIER:-quick} 2>&1)
  rc=$?
  nv=$(echo "$res" | grep -c "^VIOLATION")
  inc=$(echo "$res" | grep -c "INCOMPLETE")
  if [ $rc -ne 0 ] || [ $nv -ne 0 ] || [ $inc -ne 0 ]; then
    bad=1
    echo "   $c rc=$rc violations=$nv incomplete=$inc"
    echo "$res" | grep -B1 "^VIOLATION" | grep -v "^VIOLATION" | grep -v "^--" | head -3 | cut -c1-260 | sed 's/^/        /'
    [ $rc -eq 2 ] && echo "$res" | tail -6 | sed 's/^/        !! /'
  fi
  echo "$res" | tail -1 | cut -c1-160 >> $out/summary.txt
done
[ $bad -eq 0 ] && echo "   all quiet"
cd /; git -C /repo worktree remove --force $wt
