#!/venv/bin/python
"""usage: tools_recheck_seeded.py [--primary-only] <seeded id> ...   (no ids: all of /verif/seeded)
Re-runs the checks recorded in seeded/<id>/meta.json against the change, applied to a scratch worktree of /repo's
current HEAD (3-way merge when HEAD has moved under the patch), and updates checks_run_against_it / detected_by.
The final regression of every seeded change against the machinery as it stands."""
import glob, json, os, shutil, subprocess, sys


def sh(cmd):
    return subprocess.run(cmd, shell=True, capture_output=True, text=True)


def main():
    args = sys.argv[1:]
    primary_only = "--primary-only" in args
    ids = [a for a in args if not a.startswith("--")] or sorted(os.path.basename(os.path.dirname(p)) for p in glob.glob("/verif/seeded/*/meta.json"))
    head = sh("git -C /repo rev-parse --short HEAD").stdout.strip()
    for name in ids:
        dst = f"/verif/seeded/{name}"
        meta = json.load(open(dst + "/meta.json"))
        pid = meta["breaks_property"]
        wt = f"/tmp/ev/rc_{name}"
        sh(f"git -C /repo worktree remove --force {wt}")
        for _ in range(5):
            if sh(f"git -C /repo worktree add -q --detach {wt} HEAD").returncode == 0:
                break
        ap = sh(f"cd {wt} && (git apply {dst}/patch.diff 2>/dev/null || git apply --3way {dst}/patch.diff)")
        if ap.returncode != 0:
            print(name, "PATCH DOES NOT APPLY to", head, ap.stderr[:200], flush=True)
            sh(f"git -C /repo worktree remove --force {wt}")
            continue
        tests = sh(f"cd {wt} && PYTHONPATH=src /venv/bin/python -m pytest -q -p no:cacheprovider 2>&1 | tail -1").stdout.strip()
        mut = sh(f"cd {wt} && PYTHONPATH=src timeout 600 /venv/bin/python {dst}/demo.py").returncode
        checks = [pid] if primary_only else list(meta["checks_run_against_it"])
        results = dict(meta["checks_run_against_it"])
        for c in checks:
            out = f"/tmp/ev/out/rc_{name}"
            shutil.rmtree(out, ignore_errors=True)
            os.makedirs(out)
            r = sh(f"cd {os.environ.get('VERIF_DIR', '/verif')} && VERIF_REPO_SRC={wt}/src VERIF_OUT={out} timeout 3000 /venv/bin/python -m vf.run {c} --tier quick")
            keys = [json.load(open(f))["key"] for f in sorted(glob.glob(out + "/replays/*.json"))]
            results[c] = {"exit": r.returncode, "violations": len(keys), "keys": keys[:4]}
            shutil.rmtree(out, ignore_errors=True)
        sh(f"git -C /repo worktree remove --force {wt}")
        meta["checks_run_against_it"] = results
        meta["detected_by"] = sorted(c for c, r in results.items() if r["exit"] == 1)
        meta["rechecked"] = {"repo_head": head, "existing_suite_with_change": tests, "demo_exit_with_change": mut}
        json.dump(meta, open(dst + "/meta.json", "w"), indent=1)
        flag = "" if results[pid]["exit"] == 1 else "   <<<<<< PRIMARY DOES NOT REPORT IT"
        print(name, tests, "| demo rc", mut, "| detected by", meta["detected_by"], "| primary:", results[pid]["exit"], results[pid]["keys"][:1], flag, flush=True)


main()
